"""X04 driver: operation sequences (TLC scenarios + random) through the real methylation.MethylationCountMatrix (ev "api")
and synthetic BAM files through the real bamToMethylationCalls.get_methylation_count_matrix under several splits into jobs /
worker processes (ev "bam").

argv: out.ndjson tier seed scenarios.json
Abstract first: samples are integers, locations tuples of integers (contig index, start, end[, strand 0/1]); the Python keys
handed to the class are derived from them ('sample_%02d', ('chr%d', start, end[, '+'|'-'])) and mapped back when the state of
the object is dumped.  Every dump is raw: the counts dict, `sites`, the frames as returned.  No judgement here.
An exception raised by the code under test is recorded (operation index / run, exception type)."""
import copy
import json
import math
import os
import random
import sys

import numpy as np


class Watchdog(Exception):
    """a call into a multiprocessing.Pool of the code under test did not come back (a worker killed from outside, e.g. by the
    OOM killer, makes Pool wait forever): the harness gives up on that call - never an observation about the code"""


def with_watchdog(fn, seconds=180, tries=2):
    import signal

    def on_alarm(signum, frame):
        raise Watchdog()
    for attempt in range(tries):
        old = signal.signal(signal.SIGALRM, on_alarm)
        signal.alarm(seconds)
        try:
            return fn()
        except Watchdog:
            sys.stderr.write('watchdog: pool call did not return within %d s (attempt %d)\n' % (seconds, attempt + 1))
        finally:
            signal.alarm(0)
            signal.signal(signal.SIGALRM, old)
    raise RuntimeError('a multiprocessing call of the code under test hung %d times (killed worker?): machinery problem' % tries)


def sname(s):
    return 'bulk_sample' if s == 0 else 'sample_%02d' % s


def sback(name):
    return 0 if name == 'bulk_sample' else int(str(name).split('_')[1])


def lkey(loc):
    t = ('chr%d' % loc[0], int(loc[1]), int(loc[2]))
    return t + (('+-'[loc[3]]),) if len(loc) == 4 else t


def lback(key):
    key = tuple(key)
    t = [int(str(key[0])[3:]), int(key[1]), int(key[2])]
    if len(key) == 4:
        t.append('+-'.index(key[3]))
    return t


def num(x):
    """a count that came back as float/numpy value -> int; NaN -> -1"""
    if isinstance(x, float) and math.isnan(x):
        return -1
    if isinstance(x, (np.floating,)) and np.isnan(x):
        return -1
    return int(x)


def frame_dump(M, which):
    try:
        df = M.get_frame(which)
    except Exception as e:
        return {'outcome': type(e).__name__, 'cols': [], 'rows': [], 'vals': []}
    return {'outcome': 'ok', 'cols': [lback(c) for c in df.columns], 'rows': [sback(i) for i in df.index],
            'vals': [[num(v) for v in row] for row in df.values]}


def bulk_dump(M, threads=None):
    old = M.threads
    try:
        M.threads = threads
        df = with_watchdog(M.get_bulk_frame) if threads else M.get_bulk_frame()
    except (Watchdog, RuntimeError):
        raise
    except Exception as e:
        return {'outcome': type(e).__name__, 'rows': []}
    finally:
        M.threads = old
    rows = []
    for loc, r in zip(df.index, df.values):
        un, met, beta, var, n = r
        rows.append({'loc': lback(loc if isinstance(loc, tuple) else (loc,)), 'un': num(un), 'met': num(met),
                     'beta': -1 if np.isnan(beta) else int(round(float(beta) * 1000000)), 'varnan': bool(np.isnan(var)), 'n': num(n)})
    return {'outcome': 'ok', 'rows': rows}


def dump(M, at, counted, universe, rng, mt=False):
    cells = []
    for sample, d in M.counts.items():
        for loc, v in d.items():
            cells.append([sback(sample), lback(loc), int(v[0]), int(v[1])])
    cells.sort(key=lambda c: json.dumps(c))
    samples, locs = universe
    cols = []
    if locs:
        for _ in range(3):
            ss = sorted(rng.sample(samples, rng.randint(0, len(samples))))
            loc = rng.choice(locs)
            try:
                r = M.get_bulk_column([sname(s) for s in ss], lkey(loc))
                cols.append({'ss': ss, 'loc': loc, 'un': num(r[0]), 'met': num(r[1]), 'n': num(r[4])})
            except Exception:            # the observer itself raised: recorded as an impossible answer
                cols.append({'ss': ss, 'loc': loc, 'un': -2, 'met': -2, 'n': -2})
    peek = []
    for s in samples:
        for loc in locs:
            try:
                v = M.get_without_init((sname(s), lkey(loc)))
                peek.append([s, loc, int(v[0]), int(v[1])])
            except Exception:
                peek.append([s, loc, -2, -2])
    try:
        sample_list = [sback(x) for x in M.get_sample_list()]
    except Exception:
        sample_list = [-2]
    return {'at': at, 'counted': counted, 'cells': cells, 'sites': sorted(lback(x) for x in M.sites),
            'samples': sample_list, 'reprn': [len(M.counts), len(M.sites)],
            'fm': frame_dump(M, 'methylated'), 'fu': frame_dump(M, 'unmethylated'), 'bulk': bulk_dump(M),
            'bulkmt': bulk_dump(M, 2) if mt else {'outcome': 'skipped', 'rows': []}, 'cols': cols, 'peek': peek}


def run_api(MCM, scn, tid, src, rng, mt=False):
    ops = scn['ops']
    njobs, jobk, jobmv = scn['njobs'], scn['jobk'], scn['jobmv']
    samples = sorted(set(o['s'] for o in ops if 's' in o) | {1, 2})
    locs = sorted(set(tuple(o['loc']) for o in ops if 'loc' in o))
    locs = [list(x) for x in locs]
    if locs:
        locs.append([locs[0][0], 9000, 9010] + locs[0][3:])          # a location nobody ever touched
    universe = (samples, locs)
    jobs = [MCM() for _ in range(njobs)]
    merged = MCM()
    dumps, raised_at, exc = [], 0, ''
    last_merge = max([i for i, o in enumerate(ops) if o['op'] == 'merge'], default=-1)
    for i, o in enumerate(ops):
        try:
            k = o['op']
            if k == 'obs':
                jobs[o['c']][sname(o['s']), lkey(o['loc'])][o['meth']] += 1
            elif k == 'touch':
                jobs[o['c']][sname(o['s']), lkey(o['loc'])]
            elif k == 'merge':
                jobs[o['c']].prune(min_samples=None if jobk == -1 else jobk, min_variance=None if jobmv == -1 else jobmv)
                merged.update(jobs[o['c']])
            elif k == 'set':
                merged[sname(o['s']), lkey(o['loc'])] = [o['u'], o['m']]
            elif k == 'prune':
                merged.prune(min_samples=None if o['k'] == -1 else o['k'], min_variance=None if o['mv'] == -1 else o['mv'])
            elif k == 'del':
                merged.delete_location(lkey(o['loc']))
            elif k == 'fromcounts':
                merged = MCM(counts=copy.deepcopy(merged.counts))
            else:
                raise RuntimeError('unknown op ' + k)
        except Exception as e:       # crash of the code under test on a legal operation: an observation
            raised_at, exc = i + 1, type(e).__name__
            break
        if i == last_merge:
            dumps.append(dump(merged, i + 1, True, universe, rng, mt))
        elif i > last_merge:
            dumps.append(dump(merged, i + 1, False, universe, rng, False))
    if last_merge == -1 and not raised_at:
        dumps.append(dump(merged, len(ops), True, universe, rng, mt))
    return {'ev': 'api', 'tid': tid, 'src': src, 'njobs': njobs, 'jobk': jobk, 'jobmv': jobmv, 'ops': ops,
            'raised_at': raised_at, 'exc': exc, 'dumps': dumps}


def random_api(rng):
    """a larger random operation sequence: observations routed to jobs by location (disjoint, as the producers do; 10%: any job)"""
    ns, ncontig = rng.randint(1, 5), rng.randint(1, 3)
    stranded = rng.random() < 0.3
    binsize = rng.choice([1, 10, 500])
    njobs = rng.randint(1, 4)
    overlap = rng.random() < 0.1
    locs = []
    for _ in range(rng.randint(1, 8)):
        st = binsize * rng.randint(0, 30)
        loc = [rng.randint(1, ncontig), st, st + binsize] + ([rng.randint(0, 1)] if stranded else [])
        if loc not in locs:
            locs.append(loc)
    job_of = {json.dumps(l): rng.randrange(njobs) for l in locs}
    ops = []
    for _ in range(rng.randint(0, 60)):
        loc = rng.choice(locs)
        c = rng.randrange(njobs) if overlap else job_of[json.dumps(loc)]
        if rng.random() < 0.06:
            ops.append({'op': 'touch', 'c': c, 's': rng.randint(1, ns), 'loc': loc})
        else:
            ops.append({'op': 'obs', 'c': c, 's': rng.randint(1, ns), 'loc': loc, 'meth': int(rng.random() < 0.6)})
    order = list(range(njobs))
    rng.shuffle(order)
    ops += [{'op': 'merge', 'c': c} for c in order]
    for _ in range(rng.choice([0, 0, 1, 2, 3])):
        k = rng.choice(['set', 'prune', 'prune', 'del', 'fromcounts'])
        if k == 'set':
            ops.append({'op': 'set', 's': rng.randint(1, ns + 1), 'loc': rng.choice(locs + [[1, 7770, 7780] + ([0] if stranded else [])]),
                        'u': rng.randint(0, 3), 'm': rng.randint(0, 3)})
        elif k == 'prune':
            ops.append({'op': 'prune', 'k': rng.choice([-1, 0, 1, 2, 3]), 'mv': rng.choice([-1, 0])})
        elif k == 'del':
            ops.append({'op': 'del', 'loc': None})      # resolved below against the design state
        else:
            ops.append({'op': 'fromcounts'})
    return {'ops': ops, 'njobs': njobs, 'jobk': rng.choice([0, 0, 0, 1, 2, -1]), 'jobmv': rng.choice([-1, -1, 0])}, locs


# ---------------------------------------------------------------------------------------------------------------------
# bam layer

def random_bam_case(rng, tid, workdir):
    import bamgen
    ncontig = rng.randint(1, 3)
    contigs = [rng.choice([30, 40, 55, 60, 100, 120]) for _ in range(ncontig)]
    h = bamgen.make_header([('chr%d' % (i + 1), ln) for i, ln in enumerate(contigs)])
    reads, recs = [], []
    ns = rng.randint(1, 4)
    for r in range(rng.randint(1, 40)):
        ci = rng.randint(1, ncontig)
        n = rng.randint(3, 15)
        pos = rng.randint(0, contigs[ci - 1] - n)
        if rng.random() < 0.1:
            pos = contigs[ci - 1] - n          # a read that ends on the last base of the contig
        calls = [rng.choice('......ZZzzzxXhH') for _ in range(n)]
        if rng.random() < 0.3:          # a call on the last position before a multiple of 10 / on it: job and bin boundaries
            for i in range(n):
                if (pos + i) % 10 in (9, 0) and rng.random() < 0.7:
                    calls[i] = rng.choice('Zz')
        s = rng.randint(0, ns) if rng.random() < 0.15 else rng.randint(1, ns)
        rev = rng.random() < 0.5
        mapq = rng.choice([0, 20, 60, 60, 60])
        dup, qcfail = rng.random() < 0.1, rng.random() < 0.05
        lead, trail = (rng.randint(1, 3) if rng.random() < 0.15 else 0), (rng.randint(1, 3) if rng.random() < 0.15 else 0)
        cigar = ('%dS' % lead if lead else '') + '%dM' % n + ('%dS' % trail if trail else '')
        tags = {'XM': ''.join(calls)}
        if s:
            tags['SM'] = sname(s)
        reads.append(bamgen.make_read(h, 'r%d' % r, 'chr%d' % ci, pos, seq='A' * (n + lead + trail), cigar=cigar, reverse=rev,
                                      mapq=mapq, dup=dup, qcfail=qcfail, tags=tags))
        recs.append({'ci': ci, 'pos': pos, 'calls': calls, 's': s, 'rev': rev, 'mapq': mapq, 'dup': dup, 'qcfail': qcfail})
    path = os.path.join(workdir, 'm%d.bam' % tid)
    bamgen.write_bam(path, h, reads)
    return path, contigs, recs


def run_bam(GMC, path, contigs, recs, tid, rng, tier):
    runs = []
    longest = max(contigs)
    for bin_size in rng.sample([1, 5, 10, 20], 2):
        stranded = rng.random() < 0.3
        dyad = (not stranded) and rng.random() < 0.5
        min_samples = rng.choice([0, 1, 1, 2, -1]) if rng.random() < 0.5 else 1
        min_mq = rng.choice([0, 30])
        spans = sorted(set([bin_size * k for k in (1, 2, 3)] + [10, 20, 30, longest + 7]))
        spans = [sp for sp in spans if sp >= bin_size and (bin_size == 1 or sp % bin_size == 0 or sp > longest)]
        spans = rng.sample(spans, min(len(spans), 3)) + [longest + 7]
        for j, bpj in enumerate(dict.fromkeys(spans)):
            threads = 2 if (j == 0 and rng.random() < (0.3 if tier == 'quick' else 0.5)) else 1
            kw = dict(bin_size=bin_size, bp_per_job=bpj, min_mapping_qual=min_mq, threads=threads, count_reads=False,
                      stranded=stranded, dyad_mode=dyad, skip_contigs=[])
            if min_samples != -1:
                kw['min_samples'] = min_samples
            run = {'bin_size': bin_size, 'bp_per_job': bpj, 'threads': threads, 'stranded': stranded, 'dyad': dyad,
                   'min_samples': min_samples, 'min_mq': min_mq, 'outcome': 'ok', 'exc': '', 'cells': [], 'sites': []}
            try:
                M, _ = with_watchdog(lambda: GMC(path, **kw)) if threads > 1 else GMC(path, **kw)
                for sample, d in M.counts.items():
                    for loc, v in d.items():
                        run['cells'].append([sback(sample), lback(loc), int(v[0]), int(v[1])])
                run['cells'].sort(key=lambda c: json.dumps(c))
                run['sites'] = sorted(lback(x) for x in M.sites)
            except RuntimeError as e:
                if 'machinery problem' in str(e):
                    raise
                run['outcome'], run['exc'] = 'raised', type(e).__name__
            except Exception as e:
                run['outcome'], run['exc'] = 'raised', type(e).__name__
            runs.append(run)
    return {'ev': 'bam', 'tid': tid, 'src': 'random', 'contigs': contigs, 'reads': recs, 'runs': runs}


def main():
    out_path, tier, seed, scn_path = sys.argv[1], sys.argv[2], int(sys.argv[3]), sys.argv[4]
    rng = random.Random(seed)
    from singlecellmultiomics.methylation import MethylationCountMatrix as MCM
    with open(scn_path) as fh:
        scenarios = json.load(fh)
    tid = 0
    with open(out_path, 'w') as out:
        def emit(e):
            out.write(json.dumps(e, separators=(',', ':')) + '\n')
        # (1) TLC scenarios
        for k, scn in enumerate(scenarios):
            tid += 1
            emit(run_api(MCM, scn, tid, 'scenario', rng, mt=(k % 400 == 0)))
        if tier != 'replay':
            # (2) the repository's unit test, as an operation sequence (sample_A = 1, sample_B = 2)
            tid += 1
            L1, L2 = [1, 10, 20], [2, 10, 20]
            ops = [{'op': 'obs', 'c': 0, 's': 1, 'loc': L1, 'meth': 0}] + [{'op': 'obs', 'c': 0, 's': 1, 'loc': L2, 'meth': 0}] * 2 + \
                  [{'op': 'merge', 'c': 0}] + [{'op': 'obs', 'c': 1, 's': 1, 'loc': L2, 'meth': 1}] * 2 + \
                  [{'op': 'obs', 'c': 1, 's': 2, 'loc': L2, 'meth': 1}] + [{'op': 'obs', 'c': 1, 's': 2, 'loc': L2, 'meth': 0}] * 2 + \
                  [{'op': 'merge', 'c': 1}]
            emit(run_api(MCM, {'ops': ops, 'njobs': 2, 'jobk': 0, 'jobmv': -1}, tid, 'unittest', rng, mt=True))
            # (3) random larger operation sequences, each in two orders of the observation stream
            n = 120 if tier == 'quick' else 1500
            for k in range(n):
                scn, locs = random_api(rng)
                # resolve 'del' against a location that certainly exists at that moment: only right after the merges, no prune before
                keep, seen_post = [], False
                have = set(json.dumps(o['loc']) for o in scn['ops'] if o['op'] in ('obs', 'touch'))
                for o in scn['ops']:
                    if o['op'] == 'del':
                        if seen_post or not have or scn['jobk'] != 0 or scn['jobmv'] != -1:
                            continue
                        o = {'op': 'del', 'loc': json.loads(sorted(have)[0])}
                    if o['op'] in ('set', 'prune', 'del', 'fromcounts'):
                        seen_post = True
                    keep.append(o)
                scn['ops'] = keep
                for rep in range(2):
                    tid += 1
                    s2 = copy.deepcopy(scn)
                    if rep == 1:         # another order of the observation stream (the merges and post operations stay in place)
                        idx = [i for i, o in enumerate(s2['ops']) if o['op'] in ('obs', 'touch')]
                        vals = [s2['ops'][i] for i in idx]
                        rng.shuffle(vals)
                        for i, v in zip(idx, vals):
                            s2['ops'][i] = v
                    emit(run_api(MCM, s2, tid, 'random', rng, mt=(k % 40 == 0)))
            # (4) BAM files through get_methylation_count_matrix under several splits
            from singlecellmultiomics.bamProcessing.bamToMethylationCalls import get_methylation_count_matrix as GMC
            workdir = os.path.join(os.getcwd(), 'x04_bams')
            os.makedirs(workdir, exist_ok=True)
            nb = 25 if tier == 'quick' else 250
            for _ in range(nb):
                tid += 1
                path, contigs, recs = random_bam_case(rng, tid, workdir)
                emit(run_bam(GMC, path, contigs, recs, tid, rng, tier))
                for fn in (path, path + '.bai'):
                    if os.path.exists(fn):
                        os.remove(fn)


if __name__ == '__main__':
    main()
