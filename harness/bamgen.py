"""Synthetic BAM construction helpers for drivers (pysam only). No judgement here: generators emit the
abstract description first and derive records from it."""
import os
import pysam


def make_header(contigs, so='coordinate', extra=None):
    h = {'HD': {'VN': '1.6', 'SO': so}, 'SQ': [{'SN': n, 'LN': int(l)} for n, l in contigs]}
    if extra:
        h.update(extra)
    return pysam.AlignmentHeader.from_dict(h)


def make_read(header, name, contig=None, pos=0, seq='ACGT', qual=None, cigar=None, *, reverse=False, read1=False,
              read2=False, paired=False, proper=False, mate_contig=None, mate_pos=None, mate_reverse=False,
              mate_unmapped=False, unmapped=False, mapq=60, dup=False, qcfail=False, secondary=False,
              supplementary=False, tlen=0, tags=None):
    a = pysam.AlignedSegment(header)
    a.query_name = name
    a.query_sequence = seq
    a.query_qualities = pysam.qualitystring_to_array(qual if qual is not None else 'I' * len(seq))
    flag = 0
    if paired:
        flag |= 0x1
    if proper:
        flag |= 0x2
    if unmapped:
        flag |= 0x4
    if mate_unmapped:
        flag |= 0x8
    if reverse:
        flag |= 0x10
    if mate_reverse:
        flag |= 0x20
    if read1:
        flag |= 0x40
    if read2:
        flag |= 0x80
    if secondary:
        flag |= 0x100
    if qcfail:
        flag |= 0x200
    if dup:
        flag |= 0x400
    if supplementary:
        flag |= 0x800
    a.flag = flag
    if contig is not None:
        a.reference_id = header.get_tid(contig)
        a.reference_start = int(pos)
    else:
        a.reference_id = -1
        a.reference_start = -1
    if not unmapped:
        a.cigarstring = cigar if cigar is not None else '%dM' % len(seq)
        a.mapping_quality = mapq
    else:
        a.mapping_quality = 0
    if mate_contig is not None:
        a.next_reference_id = header.get_tid(mate_contig)
        a.next_reference_start = int(mate_pos if mate_pos is not None else 0)
    else:
        a.next_reference_id = -1
        a.next_reference_start = -1
    a.template_length = tlen
    if tags:
        for k, v in tags.items():
            if isinstance(v, tuple):
                a.set_tag(k, v[0], value_type=v[1])
            else:
                a.set_tag(k, v)
    return a


def write_bam(path, header, reads, sort=True, index=True):
    """Write reads; with sort=True they are coordinate sorted (stable; unplaced last) before writing."""
    if sort:
        def key(r):
            tid = r.reference_id
            return (tid if tid >= 0 else 1 << 30, r.reference_start if tid >= 0 else 0)
        reads = sorted(reads, key=key)
    with pysam.AlignmentFile(path, 'wb', header=header) as f:
        for r in reads:
            f.write(r)
    if index:
        pysam.index(path)
    return path
