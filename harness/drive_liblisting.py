"""X03 driver: file listings (TLC scenarios, directed, random) through the real SequencingLibraryLister.detect.

argv: out.ndjson tier seed scenarios.json
Every listing is an ABSTRACT description first (scheme, library tokens, lane, mate, chunk); the path handed to detect()
is derived from it (name_of).  The driver records the returned mapping with each path mapped back to the index of the
abstract file it was derived from; library / lane / mate keys are recorded as returned.  No judgement here.

detect() calls the builtin exit() when mates are missing: SystemExit is caught and recorded as outcome "exit" together
with the lister's `libraries` attribute at that moment.  Any other exception is recorded as outcome "raised".

glob mode: the files are created (empty) in a scratch directory and detect() gets patterns; the name `glob` of the module
under test is wrapped so that glob.glob returns its real matches in the order chosen by the scenario (Python documents the
order of glob.glob as arbitrary: it is the file system's), which makes the directory order an explicit input."""
import argparse
import contextlib
import io
import json
import os
import random
import shutil
import sys
import types

EXTS = ['.fastq.gz', '.fq.gz', '.fastq', '.fq']
TOKENS = ['a', 'b', 'ab', 'ba', 'c', 'd', 'lib', 'x7', 'XX', 'YY', 's12', 'K562']
ORIGINS = ['XX', 'YY']
REPLS = ['', 'a', 'YY', 'zz', 'b']


def name_of(f, ext, prefix=''):
    base = '_'.join(f['lib'])
    k = f['k']
    if k == 'ill':
        n = '%s%s_L%03d_R%d_%03d%s' % (prefix, base, f['lane'], f['mate'], f['ch'], ext)
    elif k == 'filt':
        n = '%s%s_L%03d_R%d_%03d_BHGFKLBCX2.filt%s' % (prefix, base, f['lane'], f['mate'], f['ch'], ext)
    elif k == 'und':
        n = '%sd%d/%s_R%d%s' % (prefix, f['ch'], base, f['mate'], ext)
    elif k == 'pln':
        n = '%sd%d/%sR%d%s' % (prefix, f['ch'], base, f['mate'], ext)
    elif k == 'srr':
        n = '%sd%d/%s_%d%s' % (prefix, f['ch'], base, f['mate'], ext)
    else:
        raise ValueError(k)
    return n


class Runner:
    def __init__(self, out, workdir):
        import singlecellmultiomics.libraryDetection.sequencingLibraryListing as M
        self.M = M
        self.real_glob = M.glob.glob
        self.rank = None
        M.glob = types.SimpleNamespace(glob=self._glob)      # the module under test looks `glob.glob` up at call time
        self.out = out
        self.tid = 0
        self.workdir = workdir
        if not callable(getattr(__import__('builtins'), 'exit', None)):
            raise RuntimeError('builtin exit() is not available (python -S?): detect() could not terminate')

    def _glob(self, path):
        res = list(self.real_glob(path))
        if self.rank is not None:
            res.sort(key=lambda p: self.rank.get(p, 10 ** 6))
        return res

    def run(self, files, opts, *, grp, src, via, ext='.fastq.gz', prefix='', silent=False):
        """files: abstract files in list (directory) order; opts: abstract options"""
        self.tid += 1
        o = opts
        replace = ['%s,%s' % (a, b) for a, b in o['replace']] or None
        slib = '_'.join(o['slib']) if o['hasslib'] else None
        merge = None if o['merge'] == 0 else ('_' if o['merge'] == 1 and self.tid % 2 else '_%d' % o['merge'])
        files = [dict(f) for f in files]
        gdir = None
        if o['glob']:
            gdir = os.path.join(self.workdir, 'g%d' % self.tid)
            prefix = gdir + '/'
        for f in files:
            f['name'] = name_of(f, ext, prefix)
        paths = [f['name'] for f in files]
        index = {p: i + 1 for i, p in enumerate(paths)}
        if o['glob']:
            for p in paths:
                os.makedirs(os.path.dirname(p), exist_ok=True)
                open(p, 'w').close()
            self.rank = {p: i for i, p in enumerate(paths)}
            arg = [gdir + '/*.f*'] + ([gdir + '/*/*.f*'] if any(f['k'] in ('und', 'pln', 'srr') for f in files) else [])
        else:
            self.rank = None
            arg = list(paths)
        lister = self.M.SequencingLibraryLister(verbose=o['verbose'])
        buf = io.StringIO()
        outcome, exc, ret = 'returned', '', None
        try:
            with contextlib.redirect_stdout(buf):
                if via == 'args':
                    ns = argparse.Namespace(replace=replace, slib=slib, merge=merge, se=o['se'], ignore=o['ignore'])
                    ret = lister.detect(arg, args=ns, silent=silent)
                else:
                    ret = lister.detect(arg, replace=replace, slib=slib, merge=merge, se=o['se'], ignore=o['ignore'], silent=silent)
        except SystemExit:
            outcome = 'exit'
            ret = getattr(lister, 'libraries', {})
        except Exception as e:                      # a crash of the code under test is an observation
            outcome, exc = 'raised', type(e).__name__
        finally:
            if gdir:
                shutil.rmtree(gdir, True)
        slots, nlibs, nlanes = [], 0, 0
        if outcome != 'raised':
            if not isinstance(ret, dict):
                outcome, exc = 'raised', 'returned_%s' % type(ret).__name__
            else:
                nlibs = len(ret)
                for lib, lanes in ret.items():
                    nlanes += len(lanes)
                    for lane, mates in lanes.items():
                        for mate, ps in mates.items():
                            slots.append({'lib': str(lib), 'lane': str(lane), 'mate': str(mate),
                                          'fs': [index.get(p, 0) for p in ps]})
        text = buf.getvalue()
        printed = len([x for x in text.splitlines() if x.strip()]) if (not o['verbose'] or silent) else -1
        self.out.write(json.dumps({'ev': 'detect', 'tid': self.tid, 'grp': grp, 'src': src, 'via': via, 'silent': silent,
                                   'opts': o, 'files': files, 'outcome': outcome, 'exc': exc, 'slots': slots,
                                   'nlibs': nlibs, 'nlanes': nlanes, 'printed': printed}, separators=(',', ':')) + '\n')


def canon(files, opts):
    return json.dumps([sorted(json.dumps(f, sort_keys=True) for f in files), opts], sort_keys=True)


def random_listing(rng):
    """a larger random listing: libraries x lanes x mates x chunks with holes"""
    nlib = rng.randint(1, 4)
    libs = []
    while len(libs) < nlib:
        lb = [rng.choice(TOKENS) for _ in range(rng.randint(1, 3))]
        if lb not in libs:
            libs.append(lb)
    schemes = rng.sample(['ill', 'filt', 'und', 'pln', 'srr'], rng.randint(1, 3))
    if rng.random() < 0.5:
        schemes = [rng.choice(['ill', 'ill', 'und', 'srr'])]
    hole = rng.choice([0, 0, 0.1, 0.3])
    files = []
    for k in schemes:
        these = [['SRR%d' % rng.randint(1, 99)] for _ in range(nlib)] if k == 'srr' else libs
        for lb in these:
            for lane in (range(1, rng.randint(1, 3) + 1) if k in ('ill', 'filt') else [0]):
                nch = rng.choice([1, 1, 2, 3])
                for ch in range(1, nch + 1):
                    for mate in (1, 2):
                        if rng.random() < hole:
                            continue
                        f = {'k': k, 'lib': lb, 'lane': lane, 'mate': mate, 'ch': ch}
                        if f not in files:
                            files.append(f)
    single_end = rng.random() < 0.1
    if single_end:
        files = [f for f in files if f['mate'] == 1]
    opts = {'replace': [[rng.choice(ORIGINS), rng.choice(REPLS)] for _ in range(rng.choice([0, 0, 1, 2]))],
            'hasslib': rng.random() < 0.25, 'slib': [], 'merge': rng.choice([0, 0, 1, 2, 3]),
            'se': single_end or rng.random() < 0.3, 'ignore': rng.random() < 0.4, 'verbose': rng.random() < 0.2,
            'glob': rng.random() < 0.3}
    if opts['hasslib']:
        opts['slib'] = rng.choice([['S'], ['S', 'L'], ['pool', 'A', '1']])
    return files, opts


def sort_key(f):
    return name_of(f, '')


def main():
    out_path, tier, seed, scn_path = sys.argv[1], sys.argv[2], int(sys.argv[3]), sys.argv[4]
    rng = random.Random(seed)
    with open(scn_path) as fh:
        scenarios = json.load(fh)
    workdir = os.path.join(os.getcwd(), 'x03_glob')
    os.makedirs(workdir, exist_ok=True)
    with open(out_path, 'w') as out:
        R = Runner(out, workdir)
        # (1) TLC scenarios; the orders of one set of files (and options) become one group of consecutive calls
        groups = {}
        for s in scenarios:
            groups.setdefault(canon(s['files'], s['opts']), []).append(s)
        grp = 0
        for key in sorted(groups):
            grp += 1
            for s in groups[key]:
                R.run(s['files'], s['opts'], grp=grp, src='scenario', via=rng.choice(['kwargs', 'args']),
                      ext=rng.choice(EXTS), silent=rng.random() < 0.5)
        # (2) directed listings
        A = ['A']
        ill = lambda lb, lane, mate, ch: {'k': 'ill', 'lib': lb, 'lane': lane, 'mate': mate, 'ch': ch}
        base = {'replace': [], 'hasslib': False, 'slib': [], 'merge': 0, 'se': False, 'ignore': False, 'verbose': False, 'glob': False}
        directed = [
            ([], base),
            ([ill(A, 1, 1, 1), ill(A, 1, 2, 1), ill(A, 2, 1, 1)], dict(base, ignore=True)),
            ([ill(A, 1, 1, 1), ill(A, 1, 1, 2), ill(A, 1, 2, 2)], dict(base, se=True)),
            ([ill(A, 1, 1, 1), ill(A, 1, 1, 2), ill(A, 1, 2, 2)], dict(base, se=True, ignore=True)),
            ([ill(['Org', '32158', 'TTAGG'], 1, m, 1) for m in (2, 1)], dict(base, merge=1)),
            ([ill(['lib', 'a', 'b'], ln, m, 1) for ln in (1, 2) for m in (1, 2)], dict(base, merge=2)),
            ([ill(['XX', 'a'], 1, m, 1) for m in (1, 2)], dict(base, replace=[['XX', 'b']])),
            ([ill(['XX', 'a'], 1, m, 1) for m in (1, 2)], dict(base, replace=[['XX', 'b']], verbose=True)),
            ([ill(['XX', 'a'], 1, m, 1) for m in (1, 2)], dict(base, replace=[['XX', '']], verbose=True)),
        ]
        if tier == 'replay':
            directed = []
        for files, opts in directed:
            grp += 1
            for via in ('kwargs', 'args'):
                R.run(files, opts, grp=grp, src='directed', via=via)
                R.run(list(reversed(files)), opts, grp=grp, src='directed', via=via, ext='.fq.gz', prefix='run/x/')
        # (3) random larger listings, each in several orders (sorted by path, shuffled, reversed)
        n = {'quick': 150, 'replay': 0}.get(tier, 4000)
        for _ in range(n):
            files, opts = random_listing(rng)
            grp += 1
            ext = rng.choice(EXTS)
            prefix = rng.choice(['', '', 'data/', '/seq/run 1/'])
            orders = [sorted(files, key=sort_key)]
            sh = files[:]
            rng.shuffle(sh)
            orders.append(sh)
            if rng.random() < 0.5:
                orders.append(list(reversed(orders[0])))
            via = rng.choice(['kwargs', 'args'])
            for od in orders:
                R.run(od, opts, grp=grp, src='random', via=via, ext=ext, prefix=prefix, silent=rng.random() < 0.5)
    shutil.rmtree(workdir, True)


if __name__ == '__main__':
    main()
