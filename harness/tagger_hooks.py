"""Observation and fault injection around the tagger CLI (bamtagmultiome.run_multiome_tagging_cmd) for C05 / C20.

No source hooks: module-level names of the code under test are wrapped from here before the CLI entry is called
(DESIGN 1.5).  Wrappers installed before multiprocessing.Pool() is created are inherited by the forked workers;
every process appends its observations to its own ndjson file (ev_<pid>.ndjson, per-process sequence numbers) and
the caller merges them by job id, never by wall clock.

Only driving and recording happens here; nothing is judged.

Fault sites (label = '<hook>:<when>', counted per process role; in a worker the counters restart with each job):
  parent:  status:before|after (write_status call n), verify:before|after, getref:before (after the old output was
           removed), prefetch:before (single pipeline, before the unsorted file is opened), write:before|after
           (Molecule.write_pysam call n), sbf_exit:before|after (leaving the `with sorted_bam_file` block: before
           close/re-header/sort/index, after them), rehead:before|after (add_readgroups_to_header),
           sort:before|after|partial (pysam.sort call n), index:before|after (pysam.index call n),
           plan:before|after (generate_tasks), merge_bams:before|after, merge:before|after|partial (pysam.merge),
           rmtree:before|after|fail
  job:<contig>: job:before|after (run_tagging_tasks), write, sbf_exit, rehead, sort, index  as above
Fault kinds: 'exception' (RuntimeError), 'ioerror' (OSError ENOSPC), 'interrupt' (SIGINT to the process itself ->
KeyboardInterrupt, a BaseException), 'kill' (os._exit(137)); when 'partial' = the real
function runs, its output file is truncated to half its size, then the fault fires (a sort/merge that dies half way);
when 'short' = same, but the output is replaced by a valid BAM holding only the first half of the records.
"""
import contextlib
import json
import os
import sys

_STATE = {'fault': None, 'evdir': None, 'parent': None, 'seq': 0, 'counts': {}, 'job': None, 'plan': None, 'out': None,
          'fired': False, 'snap': True, 'phase': 'main'}


def _cov_restart_after_fork():
    """Only when the drivers run under coverage.py (tools/coverage_report.py): give the forked child its own data file."""
    if not (os.environ.get('COVERAGE_PROCESS_START') or os.environ.get('COVERAGE_PROCESS_CONFIG')):
        return
    try:
        from coverage.control import _after_fork_in_child
        _after_fork_in_child()
    except Exception:
        pass


_POOLS = []


def _cov_join_pools():
    import threading
    for pl in _POOLS:
        def fin(pl=pl):
            try:
                pl.close()
                pl.join()
            except Exception:
                pass
        t = threading.Thread(target=fin, daemon=True)
        t.start()
        t.join(5)


def _cov_save():
    """os._exit skips atexit: write the coverage data of this process first (no-op without coverage)."""
    if not (os.environ.get('COVERAGE_PROCESS_START') or os.environ.get('COVERAGE_PROCESS_CONFIG')):
        return
    try:
        import coverage
        c = coverage.Coverage.current()
        if c is not None:
            c.save()
    except Exception:
        pass


class InjectedFault(RuntimeError):
    pass


class InjectedIOError(OSError):
    """fault kind 'ioerror': what a full disk or a truncated read raises (errno ENOSPC)."""


def emit(ev):
    st = _STATE
    st['seq'] += 1
    ev = dict(ev, pid_role=role(), seq=st['seq'], phase=st['phase'])
    with open(os.path.join(st['evdir'], 'ev_%d.ndjson' % os.getpid()), 'a') as f:
        f.write(json.dumps(ev, separators=(',', ':')) + '\n')


def role():
    if os.getpid() == _STATE['parent']:
        return 'parent'
    return 'job:%s' % _STATE['job'] if _STATE['job'] is not None else 'worker'


def _truncate(path):
    try:
        sz = os.path.getsize(path)
        with open(path, 'r+b') as f:
            f.truncate(max(1, sz // 2))
    except OSError:
        pass


def _shorten(path):
    """Leave a READABLE partial file: a valid BAM holding only the first half of the records (what a sort/merge that
    ran out of space after flushing part of its output can leave behind)."""
    import pysam
    try:
        with pysam.AlignmentFile(path, check_sq=False) as f:
            header = f.header
            reads = list(f.fetch(until_eof=True))
        with pysam.AlignmentFile(path + '.short', 'wb', header=header) as o:
            for r in reads[:len(reads) // 2]:
                o.write(r)
        os.replace(path + '.short', path)
    except (OSError, ValueError):
        pass


def _vanish(f):
    path = f.get('target')
    if f.get('target_job') is not None:            # the per-job result file of that job, among the files handed to merge_bams
        import pysam
        path = None
        for b in (_STATE.get('last_args') or [[]])[0]:
            try:
                with pysam.AlignmentFile(b, check_sq=False) as h:
                    r = next(h.fetch(until_eof=True), None)
            except (OSError, ValueError):
                continue
            if r is not None and ((r.reference_name or '*') if r.reference_id >= 0 else '*') == f['target_job']:
                path = b
    if not path or not os.path.exists(path):
        emit({'ev': 'vanish_target_missing'})
        return
    if f.get('how') == 'empty':
        open(path, 'wb').close()
    else:
        os.remove(path)


def _spoil(when, target):
    if target and when == 'partial':
        _truncate(target)
    elif target and when == 'short':
        _shorten(target)


def _raise(f, msg, site=None):
    if f.get('kind') == 'interrupt':
        # a real SIGINT to this process: Python's handler raises KeyboardInterrupt (a BaseException) right here
        import signal
        import time
        signal.signal(signal.SIGINT, signal.default_int_handler)
        os.kill(os.getpid(), signal.SIGINT)
        time.sleep(0.2)
        raise KeyboardInterrupt(msg)        # not reached when the handler fired
    if f.get('kind') == 'ioerror':
        import errno
        raise InjectedIOError(errno.ENOSPC, 'No space left on device (%s)' % msg)
    if site in ('sort', 'index', 'merge'):
        import pysam
        raise pysam.SamtoolsError('injected: samtools %s failed (%s)' % (site, msg))     # the step's own error class
    raise InjectedFault(msg)


def point(site, when, target=None):
    """A step boundary: count it, fire the configured fault if this is the chosen one.

    fault = {'proc', 'site', 'when', 'nth', 'kind'} and optionally 'soft': {'proc', 'site', 'when', 'count'}: the first
    `count` passages of that boundary raise a (retryable) exception - models sort attempts that fail and are retried."""
    st = _STATE
    key = (role(), site, when)
    st['counts'][key] = n = st['counts'].get(key, 0) + 1
    f = st['fault']
    if not f:
        return
    soft = f.get('soft')
    if soft and soft['site'] == site and soft['when'] == when and soft['proc'] == role() and n <= soft['count']:
        _spoil(when, target)
        emit({'ev': 'fault_fired', 'site': site, 'when': when, 'n': n, 'kind': 'exception', 'soft': True})
        _raise(f, 'injected (retryable) at %s:%s #%d' % (site, when, n), site)
    if f.get('site') != site or f.get('when') != when or f.get('proc') != role() or n != f.get('nth', 1):
        return
    _spoil(when, target)
    st['fired'] = True
    emit({'ev': 'fault_fired', 'site': site, 'when': when, 'n': n, 'kind': f['kind']})
    if f['kind'] == 'vanish':            # environment fault: a file produced by an earlier step disappears / is emptied; no exception
        _vanish(f)
        return
    if f['kind'] == 'kill':
        sys.stdout.flush()
        _cov_save()
        os._exit(137)
    _raise(f, 'injected at %s:%s #%d' % (site, when, n), site)


def wrap(site, fn, target_arg=None):
    def wrapper(*a, **k):
        _STATE['last_args'] = a
        point(site, 'before')
        r = fn(*a, **k)
        tgt = None
        if target_arg is not None:
            tgt = target_arg(a, k)
        point(site, 'partial', tgt)
        point(site, 'short', tgt)
        point(site, 'after')
        return r
    wrapper.__name__ = getattr(fn, '__name__', site)
    wrapper._verif_wrapped = fn
    return wrapper


def run_tagging_tasks_wrapper(args):
    """Runs in the pool worker (module-level so that it pickles by reference)."""
    import singlecellmultiomics.universalBamTagger.tagging as tagging
    st = _STATE
    (alignments_path, temp_dir, timeout_time), arglist = args
    contigs = [t['contig'] for t in arglist]
    st['job'] = contigs[0] if contigs else None
    st['counts'] = {k: v for k, v in st['counts'].items() if k[0] == 'parent'}
    jid = -1
    if st['plan'] is not None and contigs in st['plan']:
        jid = st['plan'].index(contigs)
    point('job', 'before')
    res = tagging._verif_real_run_tagging_tasks(args)
    bam, meta = res
    emit({'ev': 'job', 'job': jid, 'contigs': contigs, 'kept': bam is not None, 'molecules': int(meta.get('total_molecules', 0))})
    point('job', 'after')
    st['job'] = None
    return res


def install(fault, evdir, out_path, snapshots=True):
    """Patch the module-level names. Call once, in the process that will call run_multiome_tagging_cmd."""
    import shutil

    import pysam

    import singlecellmultiomics.bamProcessing.bamFunctions as bf
    import singlecellmultiomics.molecule as molmod
    import singlecellmultiomics.universalBamTagger.bamtagmultiome as tm
    import singlecellmultiomics.universalBamTagger.tagging as tagging
    st = _STATE
    st.update(evdir=evdir, parent=os.getpid(), seq=0, out=out_path, snap=snapshots)
    arm(fault)
    if os.environ.get('COVERAGE_PROCESS_START') or os.environ.get('COVERAGE_PROCESS_CONFIG'):
        # measurement runs only: coverage's SIGTERM handler inside pool workers can dead-lock the pool's terminate-on-garbage-
        # collection; keep the pools referenced and let _child() join them (workers then exit normally and save their data)
        real_pool = tm.Pool

        def keep_pool(*a, **k):
            pl = real_pool(*a, **k)
            _POOLS.append(pl)
            return pl
        tm.Pool = keep_pool
    tm.sleep = lambda s: None            # harness-side patch that only removes waiting (listed in the evidence assumptions)

    real_ws = tm.write_status

    def write_status(output_path, message):
        point('status', 'before')
        real_ws(output_path, message)
        ev = {'ev': 'status_write', 'msg': message}
        if st['snap']:
            ev['obs'] = inspect_output(output_path)
        emit(ev)
        point('status', 'after')
    tm.write_status = write_status

    tm.verify_and_fix_bam = wrap('verify', tm.verify_and_fix_bam)
    tm.get_reference_from_pysam_alignmentFile = wrap('getref', tm.get_reference_from_pysam_alignmentFile)
    tm.prefetch = wrap('prefetch', tm.prefetch)
    real_gt = tm.generate_tasks

    def generate_tasks(**kw):
        point('plan', 'before')
        jg = [list(j) for j in kw['job_gen']]
        kw['job_gen'] = jg
        st['plan'] = [[t[0] for t in j] for j in jg]
        emit({'ev': 'plan', 'jobs': st['plan'], 'regions': [[list(t[1:]) for t in j] for j in jg]})
        if st['fault'] and st['fault'].get('stop_after_plan'):
            raise StopAfterPlan()
        r = list(real_gt(**kw))
        point('plan', 'after')
        return r
    tm.generate_tasks = generate_tasks

    real_gcwr = tm.get_contigs_with_reads

    def get_contigs_with_reads(bam_path, with_length=False):
        r = list(real_gcwr(bam_path, with_length))
        if with_length:
            emit({'ev': 'idxstats', 'lines': [[c, int(l)] for c, l in r]})
        return r
    tm.get_contigs_with_reads = get_contigs_with_reads

    tagging._verif_real_run_tagging_tasks = tagging.run_tagging_tasks
    tm.run_tagging_tasks = run_tagging_tasks_wrapper
    tm.merge_bams = wrap('merge_bams', tm.merge_bams)

    # the pysam dispatchers are looked up as attributes of the pysam module at call time
    pysam.sort = wrap('sort', pysam.sort, target_arg=lambda a, k: a[a.index('-o') + 1] if '-o' in a else None)
    pysam.index = wrap('index', pysam.index, target_arg=lambda a, k: a[0] + '.bai')
    pysam.merge = wrap('merge', pysam.merge, target_arg=lambda a, k: a[0])
    bf.add_readgroups_to_header = wrap('rehead', bf.add_readgroups_to_header)

    class _OsProxy(object):
        """bamFunctions' view of `os`: rename / remove inside the helpers are step boundaries of their own."""
        rename = staticmethod(wrap('bfrename', os.rename))
        remove = staticmethod(wrap('bfremove', os.remove))

        def __getattr__(self, name):
            return getattr(os, name)
    bf.os = _OsProxy()

    real_rmtree = shutil.rmtree

    def rmtree(*a, **k):
        point('rmtree', 'before')
        f = st['fault']
        if f and f.get('site') == 'rmtree' and f.get('when') == 'fail' and role() == f.get('proc'):
            st['fired'] = True
            emit({'ev': 'fault_fired', 'site': 'rmtree', 'when': 'fail', 'n': 1, 'kind': 'exception'})
            raise OSError('injected: rmtree fails')
        r = real_rmtree(*a, **k)
        point('rmtree', 'after')
        return r
    tm.shutil.rmtree = rmtree

    real_wp = molmod.Molecule.write_pysam

    def write_pysam(self, *a, **k):
        point('write', 'before')
        r = real_wp(self, *a, **k)
        point('write', 'after')
        return r
    molmod.Molecule.write_pysam = write_pysam

    def sbf_wrapper(real):
        @contextlib.contextmanager
        def sorted_bam_file(*a, **k):
            cm = real(*a, **k)
            h = cm.__enter__()
            try:
                yield h
            except BaseException:
                if not cm.__exit__(*sys.exc_info()):
                    raise
            else:
                point('sbf_exit', 'before')
                cm.__exit__(None, None, None)
                point('sbf_exit', 'after')
        return sorted_bam_file
    tm.sorted_bam_file = sbf_wrapper(tm.sorted_bam_file)
    tagging.sorted_bam_file = sbf_wrapper(tagging.sorted_bam_file)


class StopAfterPlan(Exception):
    pass


def arm(fault, phase='main'):
    """Select the fault for the next CLI call in this process and restart the counters."""
    _STATE.update(fault=fault, counts={}, job=None, plan=None, fired=False, phase=phase)


# ------------------------------------------------------------------------------------------------
# observers (trusted base: pysam as reader of BAM validity)

def _classify_line(t):
    t = t.strip().lower()
    if not t:
        return 'none'
    if 'unfinished' in t:
        return 'unfinished'
    if 'fail' in t:
        return 'fail'
    if 'submit' in t:
        return 'other'
    return 'ok'


def classify_status(text):
    """Content class of the status file.  A line reports success when it is non-empty and says neither unfinished / fail
    nor that jobs were only submitted.  The FILE reports success ('ok') when ANY of its lines does: whoever opens or greps
    the file sees the success message, wherever it stands (the tagger itself always writes a one-line file, for which this
    is the plain reading).  Otherwise the class of the last non-empty line (documented in docs/C20.md)."""
    if text is None:
        return 'none'
    classes = [c for c in (_classify_line(l) for l in text.splitlines()) if c != 'none']
    if not classes:
        return 'none'
    if 'ok' in classes:
        return 'ok'
    return classes[-1]


def read_status(out_path):
    p = out_path.replace('.bam', '.status.txt')
    if not os.path.exists(p):
        return None
    with open(p) as f:
        return f.read()


def record(r, tid_names):
    bit = 1 if r.is_read1 else (2 if r.is_read2 else 0)
    return {'name': r.query_name, 'mate': bit, 'seq': r.query_sequence or '*', 'qual': r.qual or '*',
            'ref': r.reference_name if r.reference_id >= 0 else '*', 'pos': int(r.reference_start) if r.reference_id >= 0 else -1,
            'cigar': r.cigarstring or '*', 'tid': int(r.reference_id), 'sec': bool(r.is_secondary or r.is_supplementary),
            'rg': (r.get_tag('RG') if r.has_tag('RG') else ''), 'flag': int(r.flag)}


def read_records(path):
    import pysam
    with pysam.AlignmentFile(path, check_sq=False) as f:
        return [record(r, None) for r in f.fetch(until_eof=True)]


def inspect_output(out_path, with_records=True):
    """Raw observation of <out>.bam / .bai / status file as pysam and the file system see them."""
    import pysam
    st = read_status(out_path)
    o = {'status_raw': (st or '').strip()[:80], 'status': classify_status(st), 'exists': os.path.exists(out_path),
         'bai': os.path.exists(out_path + '.bai'), 'unsorted_left': os.path.exists(out_path + '.unsorted'),
         'readable': False, 'so': '', 'records': [], 'hdr_rg': [], 'index_usable': False, 'via_index': -1, 'sq': [],
         'index_fresh': False}
    if not o['exists']:
        return o
    try:
        save = pysam.set_verbosity(0)
        with pysam.AlignmentFile(out_path, check_sq=False) as f:
            hd = f.header.to_dict()
            o['so'] = hd.get('HD', {}).get('SO', '')
            o['hdr_rg'] = [x.get('ID', '') for x in hd.get('RG', [])]
            o['sq'] = [x['SN'] for x in hd.get('SQ', [])]
            recs = [record(r, None) for r in f.fetch(until_eof=True)]
            trunc = f.check_truncation() if hasattr(f, 'check_truncation') else False
        o['records'] = recs if with_records else []
        o['n_records'] = len(recs)
        o['readable'] = not trunc
        pysam.set_verbosity(save)
    except Exception as ex:          # not a BAM / truncated: that is the observation
        o['read_error'] = type(ex).__name__
        return o
    if o['bai']:
        o['index_fresh'] = os.path.getmtime(out_path + '.bai') >= os.path.getmtime(out_path)
        try:
            with pysam.AlignmentFile(out_path) as f:
                n = 0
                for ref in f.references:
                    n += sum(1 for _ in f.fetch(ref))
                o['via_index'] = n
                o['index_usable'] = True
        except Exception as ex:
            o['index_error'] = type(ex).__name__
    return o


# ------------------------------------------------------------------------------------------------
# one case in one child process; several children at a time

def _child(case, cdir):
    """Runs in the forked child: install hooks, run the CLI, record how it ended."""
    import io
    os.setsid()
    _cov_restart_after_fork()
    devnull = os.open(os.devnull, os.O_RDWR)
    log = os.open(os.path.join(cdir, 'log.txt'), os.O_WRONLY | os.O_CREAT | os.O_TRUNC)
    os.dup2(devnull, 0)
    os.dup2(log, 1)
    os.dup2(log, 2)
    sys.stdout = io.TextIOWrapper(os.fdopen(1, 'wb', closefd=False), line_buffering=True)
    sys.stderr = io.TextIOWrapper(os.fdopen(2, 'wb', closefd=False), line_buffering=True)
    os.chdir(cdir)
    end = {'ev': 'end', 'raised': ''}
    try:
        import singlecellmultiomics.universalBamTagger.bamtagmultiome as tm
        install(None, cdir, case['out'], snapshots=case.get('snapshots', True))
        if case.get('prerun_argv'):     # an earlier call in the SAME process on another input, writing to the same output path
            arm(None, 'prerun')
            tm.run_multiome_tagging_cmd(list(case['prerun_argv']))
        if case.get('swap_from'):       # the input file is REPLACED (same path, other content) between the two calls
            import shutil as _sh
            _sh.copyfile(case['swap_from'], case['inp'])
            _sh.copyfile(case['swap_from'] + '.bai', case['inp'] + '.bai')
        if case.get('prerun'):          # a complete earlier run of the same command leaves output, index and status on disk
            arm(None, 'prerun')
            tm.run_multiome_tagging_cmd(list(case['argv']))
            if case.get('stale_old_index') and os.path.exists(case['out'] + '.bai'):
                # an index in samtools' older naming (<out>.bai) survives from the earlier run: the tagger does not remove it
                import shutil as _sh2
                _sh2.copyfile(case['out'] + '.bai', case['out'].replace('.bam', '.bai'))
        arm(case.get('fault'), 'main')
        try:
            tm.run_multiome_tagging_cmd(list(case['argv']))
        except StopAfterPlan:
            end['raised'] = 'StopAfterPlan'
        except SystemExit as ex:
            end['raised'] = 'SystemExit:%s' % (ex.code,)
        except BaseException as ex:
            end['raised'] = type(ex).__name__
            import traceback
            traceback.print_exc()
        emit(end)
        sys.stdout.flush()
        _cov_join_pools()
        _cov_save()
        os._exit(0 if not end['raised'] or end['raised'] == 'StopAfterPlan' else 1)
    except BaseException:
        import traceback
        traceback.print_exc()
        os._exit(3)


def run_cases(cases, workdir, parallel=8, timeout=60, hang_timeout=8):
    """cases: list of {'id', 'argv', 'out', 'fault'?, 'expect_hang'?}. Forks one child per case (at most `parallel` at
    a time), kills the child's whole process group afterwards, returns {id: {'exit', 'timeout', 'events', 'dir'}}."""
    import signal
    import time
    hang = [c for c in cases if c.get('expect_hang')]
    if hang and len(hang) < len(cases):
        # cases expected to end in a hung parent only wait for their timeout: run them in a wider batch of their own
        results = run_cases([c for c in cases if not c.get('expect_hang')], workdir, parallel, timeout, hang_timeout)
        results.update(run_cases(hang, workdir, parallel * 3, timeout, hang_timeout))
        return results
    pending = list(cases)
    running = {}
    results = {}
    while pending or running:
        while pending and len(running) < parallel:
            c = pending.pop(0)
            cdir = os.path.join(workdir, 'case_%s' % c['id'])
            os.makedirs(cdir, exist_ok=True)
            sys.stdout.flush()
            sys.stderr.flush()
            pid = os.fork()
            if pid == 0:
                _child(c, cdir)
                os._exit(4)
            running[pid] = (c, cdir, time.time())
        done = []
        for pid, (c, cdir, t0) in running.items():
            # look without reaping: while the child is a zombie its pid (= process group id) cannot be re-used, so the
            # killpg below can only hit this case's own pool workers
            si = os.waitid(os.P_PID, pid, os.WEXITED | os.WNOHANG | os.WNOWAIT)
            lim = hang_timeout if c.get('expect_hang') else timeout
            if si is None:
                if time.time() - t0 > lim:
                    try:
                        os.killpg(pid, signal.SIGKILL)
                    except OSError:
                        pass
                    os.waitpid(pid, 0)
                    done.append((pid, -9, True))
                continue
            try:
                os.killpg(pid, signal.SIGKILL)
            except OSError:
                pass
            r, stt = os.waitpid(pid, 0)
            code = os.WEXITSTATUS(stt) if os.WIFEXITED(stt) else -os.WTERMSIG(stt)
            done.append((pid, code, False))
        for pid, code, to in done:
            c, cdir, t0 = running.pop(pid)
            results[c['id']] = {'exit': code, 'timeout': to, 'dir': cdir, 'events': collect_events(cdir),
                                'wall': round(time.time() - t0, 2)}
        if not done:
            time.sleep(0.01)
    return results


def collect_events(cdir):
    """All per-process event files of one case: {'parent': [...in seq order...], 'jobs': [...sorted by job id...], ...}."""
    evs = []
    for fn in sorted(os.listdir(cdir)):
        if fn.startswith('ev_') and fn.endswith('.ndjson'):
            with open(os.path.join(cdir, fn)) as f:
                for line in f:
                    line = line.strip()
                    if line:
                        try:
                            e = json.loads(line)
                        except ValueError:
                            continue    # a line cut by a kill
                        if e.get('phase') == 'main':
                            evs.append(e)
    parent = sorted([e for e in evs if e.get('pid_role') == 'parent'], key=lambda e: e['seq'])
    jobs = sorted([e for e in evs if e.get('ev') == 'job'], key=lambda e: (e['job'], e['contigs']))
    fired = [e for e in evs if e.get('ev') == 'fault_fired']
    return {'parent': parent, 'jobs': jobs, 'fired': fired}
