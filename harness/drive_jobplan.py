"""C05 driver: contig layouts -> synthetic BAMs -> the real tagger CLI (single process and --multiprocess).
usage: drive_jobplan.py <out.ndjson> <tier> <seed> <scenarios.json> [<replay_case.json>]

scenarios.json: {'plan': [layout scenarios printed by JobPlan!Emit], 'run': [...]}   (spec -> code direction)
Records raw observations only (job plan as handed to generate_tasks, idxstats lines, input and output records as pysam
reads them, header fields, index behaviour); Trace_JobPlan.tla judges.
"""
import json
import os
import random
import sys

import tagger_gen as tg
import tagger_hooks as th

METHODS = ['nla', 'chic', 'qflag']


def cli_args(inp, out, method, mode, threads, tmp, no_rejects, extra=()):
    a = [inp, '-method', method, '-o', out]
    if mode == 'multi' and threads == 0:
        a += ['--multiprocess']          # nothing else: -tagthreads unset (all CPUs), -temp_folder '.' (the child's cwd)
    elif mode == 'multi':
        a += ['--multiprocess', '-tagthreads', str(threads), '-temp_folder', tmp]
    a += list(extra)
    if no_rejects:
        a += ['--no_rejects']
    return a


def make_case(cid, workdir, layout, seed, method, mode, threads, no_rejects, plan_only=False, extra=(), index_state=''):
    cdir = os.path.join(workdir, 'case_%s' % cid)
    os.makedirs(cdir, exist_ok=True)
    inp = os.path.join(cdir, 'in.bam')
    truth = tg.write(inp, layout, random.Random(seed), method)
    if index_state == 'missing':         # verify_and_fix_bam builds it
        os.remove(inp + '.bai')
    elif index_state == 'older':         # same content, but older than the BAM: rebuilt
        os.utime(inp + '.bai', (os.path.getmtime(inp) - 100, os.path.getmtime(inp) - 100))
    out = os.path.join(cdir, 'out.bam')
    case = {'id': cid, 'argv': cli_args(inp, out, method, mode, threads, cdir, no_rejects, extra), 'out': out, 'inp': inp,
            'extra': list(extra), 'index_state': index_state,
            'truth': truth, 'layout': layout, 'bamseed': seed, 'method': method, 'mode': mode, 'threads': threads,
            'no_rejects': no_rejects, 'plan_only': plan_only, 'snapshots': False}
    if plan_only:
        case['fault'] = {'stop_after_plan': True}
    return case


def input_records(case):
    # input side only: the generator's BAM as pysam reads it (for a replaced-input history the file that is swapped in,
    # whether or not the run under test got as far as the swap)
    recs = th.read_records(case.get('inp_observed', case['inp']))
    for r in recs:
        t = case['truth'].get((r['name'], r['mate']))
        if t is None:
            raise RuntimeError('generator/observer mismatch for %s' % r['name'])
        r['pm'], r['valid'] = t['pm'], t['valid']
        del r['rg'], r['flag']
    return recs


def events_for(case, res, tid):
    """Projection of one finished case into trace events."""
    evs = []
    pe = res['events']['parent']
    desc = tg.describe(case['layout'])
    inrecs = input_records(case)
    need = sorted(set(r['ref'] for r in inrecs))
    base = {'tid': tid, 'mode': case['mode'], 'method': case['method'], 'threads': case['threads'], 'shape': tg.shape(case['layout']),
            'layout': desc, 'bamseed': case['bamseed'], 'no_rejects': case['no_rejects'], 'history': case.get('history', ''),
            'extra': case['extra'], 'index_state': case['index_state']}
    plan = [e for e in pe if e['ev'] == 'plan']
    idx = [e for e in pe if e['ev'] == 'idxstats']
    if plan:
        evs.append(dict(base, ev='plan', need=need, jobs=plan[-1]['jobs'],
                        regions_used=any(x is not None for j in plan[-1]['regions'] for t in j for x in t),
                        idx=idx[-1]['lines'] if idx else [],
                        small=[c['name'] for c in case['layout']['contigs'] if c['len'] < tg.THRESHOLD],
                        um_only=[c['name'] for c in case['layout']['contigs'] if c['kinds'] and set(c['kinds']) == {'orphan_unmapped'}]))
    if case['plan_only']:
        return evs
    end = [e for e in pe if e['ev'] == 'end']
    obs = th.inspect_output(case['out'])
    out = obs.pop('records')
    for r in out:
        del r['flag']
    evs.append(dict(base, ev='run', raised=(end[-1]['raised'] if end else 'died'), exit=res['exit'], timeout=res['timeout'],
                    exists=obs['exists'], readable=obs['readable'], so=obs['so'], bai=obs['bai'], index_usable=obs['index_usable'],
                    via_index=obs['via_index'], hdr_rg=obs['hdr_rg'], status=obs['status'], sq_out=obs['sq'],
                    sq_in=[c['name'] for c in case['layout']['contigs']],
                    jobs_planned=plan[-1]['jobs'] if plan else [], jobs_run=[e['contigs'] for e in res['events']['jobs']],
                    **{'in': inrecs, 'out': out}))
    return evs


def main():
    outp, tier, seed = sys.argv[1], sys.argv[2], int(sys.argv[3])
    scn = json.load(open(sys.argv[4]))
    replay = json.load(open(sys.argv[5])) if len(sys.argv) > 5 else None
    rng = random.Random(seed)
    workdir = os.path.join(os.getcwd(), 'c05_work')
    os.makedirs(workdir, exist_ok=True)
    import singlecellmultiomics.universalBamTagger.bamtagmultiome  # noqa: F401  warm import before forking
    cases = []

    def add(layout, method, mode, threads, no_rejects, plan_only=False, bamseed=None, extra=(), index_state=''):
        cid = len(cases) + 1
        cases.append(make_case(cid, workdir, layout, bamseed if bamseed is not None else rng.randrange(1 << 30), method, mode,
                               threads, no_rejects, plan_only, extra, index_state))

    if replay:
        add(tg.undescribe(replay['layout']), replay['method'], replay['mode'], replay['threads'], replay['no_rejects'],
            plan_only=(replay['ev'] == 'plan' and replay.get('plan_only', False)), bamseed=replay['bamseed'],
            extra=replay.get('extra') or (), index_state=replay.get('index_state') or '')
    else:
        # (1) spec -> code, plan only: every layout of the bounded model (cheap: stops after the plan is handed over)
        for s in scn['plan']:
            add(tg.layout_from_scenario(s, rng, kinds=tg.SIMPLE_KINDS), 'nla', 'multi', 2, False, plan_only=True)
        # (2) spec -> code, full runs: chosen layouts x {single, multi}
        for k, s in enumerate(scn['run']):
            lay = tg.layout_from_scenario(s, rng)
            method = METHODS[k % 3]
            bs = rng.randrange(1 << 30)
            add(lay, method, 'single', 1, False, bamseed=bs)
            add(lay, method, 'multi', 1 + k % 4, False, bamseed=bs)
        # (3) random layouts up to 12 contigs, every fragment kind, all methods, worker counts 1..4, --no_rejects
        n_rand = 14 if tier == 'quick' else 200
        for k in range(n_rand):
            lay = tg.random_layout(rng, max_contigs=rng.choice([2, 4, 6, 12]))
            method = METHODS[k % 3]
            bs = rng.randrange(1 << 30)
            nr = (k % 2 == 1) and method != 'qflag'
            add(lay, method, 'single', 1, nr, bamseed=bs)
            add(lay, method, 'multi', 1 + k % 4, nr, bamseed=bs)
            if tier != 'quick':
                add(lay, method, 'multi', 1 + (k + 2) % 4, not nr and method != 'qflag', bamseed=bs)
        # (5) directed layouts for boundary coincidences the random generator reaches too rarely
        def L(*contigs, star=0):
            return {'contigs': [{'name': n, 'len': ln, 'big': ln >= tg.THRESHOLD, 'kinds': list(k)} for n, ln, k in contigs],
                    'star': ['unplaced_single'] * star}
        directed = [
            # pooled small contigs whose LAST member has reads but writes no molecule (only a supplementary alignment)
            (L(('chr2', 2500, ['pair', 'single']), ('chr10', 250_000, ['pair']), ('chrM', 40_000, ['sec_only'])), False),
            (L(('sA', 99_999, ['pair_rev']), ('sB', 2500, ['single']), ('sC', 2500, ['sec_only']), star=1), False),
            # ... or only rejected fragments, with --no_rejects
            (L(('chr2', 2500, ['pair']), ('chrM', 40_000, ['orphan_r2'])), True),
            (L(('sA', 40_000, ['single', 'pair']), ('big', 100_000, ['pair']), ('sC', 2500, ['qcfail', 'orphan_r2'])), True),
            # contigs (small and big) whose only records are unmapped reads placed on them: idxstats 0 mapped, >0 unmapped
            (L(('sU', 2500, ['orphan_unmapped']), ('bigU', 250_000, ['orphan_unmapped']), ('big', 100_001, ['pair'])), False),
            (L(('big', 100_000, ['pair']), ('sU', 40_000, ['orphan_unmapped', 'orphan_unmapped']), ('sV', 2500, ['single'])), False),
            # exactly ONE small contig with reads next to big ones
            (L(('chr1', 250_000, ['pair']), ('chrM', 2500, ['single']), ('chr2', 100_000, ['pair_rev'])), False),
            (L(('chrM', 99_999, ['pair']), ('chr1', 250_000, ['single']), star=1), False),
            # duplicates of one molecule sequenced on different lanes / flowcells (different read groups)
            (L(('chr1', 250_000, ['pair', 'dup_lane', 'single'])), False),
            (L(('chrM', 2500, ['single', 'pair', 'dup_lane', 'dup_lane']), ('chr1', 100_000, ['pair', 'dup_lane']), star=1), False),
            # a fragment whose UMI is within distance 1 of TWO buffered molecules of its cell and cut site
            (L(('chr1', 250_000, ['umi_bridge', 'single']), ('chrM', 2500, ['umi_bridge'])), False),
            # both mates in the file but delivered one by one: R2 mapped / R1 unmapped, mates on different contigs, both unmapped
            (L(('chr1', 250_000, ['half_r1u', 'cross', 'pair']), ('chrM', 2500, ['single', 'unmapped_placed_pair', 'cross']),
               ('chr2', 100_000, ['half', 'pair_rev'])), False),
            # falsy-but-valid and boundary values: coordinate 0, last base of the contig, phred 0, lane '0', N bases, CIGAR
            # operations other than M, reads with SM/RX only
            (L(('chrM', 2500, ['pos0', 'cigar', 'minimal_tags', 'contig_end']), ('chr1', 100_000, ['pos0', 'pair', 'cigar', 'contig_end']),
               ('chr1_alt', 99_999, ['contig_end']), ('1', 250_000, ['minimal_tags', 'pos0'])), False),
            (L(('chr1', 100_000, ['pos0', 'cigar', 'nomotif', 'contig_end']), ('chr11', 40_000, ['cigar', 'orphan_r2'])), True),
            # legal SAM reference names containing * : | = ; (only the bare '*' is the unplaced bin)
            (L(('HLA-A*01:01:01:01', 2500, ['pair', 'single']), ('chr1', 250_000, ['pair']), ('HLA-B*07:02', 100_000, ['pair_rev']),
               ('un|k=1', 40_000, ['single']), ('chr7:alt;2', 250_000, ['half'])), False),
        ]
        directed[-1][0]['star'] = ['unplaced_single']
        directed[-4][0]['star'] = ['unplaced_pair', 'unplaced_single']
        for k, (lay, nr) in enumerate(directed):
            for method in (['nla', 'chic'] if not nr else ['nla']):
                bs = rng.randrange(1 << 30)
                add(lay, method, 'single', 1, nr, bamseed=bs)
                add(lay, method, 'multi', 1 + k % 3, nr, bamseed=bs)
        # (6) history: the same process first tags ANOTHER input into the same output path (other contigs, other read groups,
        #     more records), then this one - nothing of the first call may leak into the second
        for k, (method, mode) in enumerate([('nla', 'single'), ('chic', 'multi'), ('qflag', 'single'), ('nla', 'multi')]):
            first = tg.random_layout(rng, max_contigs=4)
            second = tg.random_layout(rng, max_contigs=3) if k != 2 else {'contigs': [{'name': 'chrE', 'len': 5000, 'big': False, 'kinds': []}], 'star': []}
            add(second, method, mode, 2, False)
            c2 = cases[-1]
            other = os.path.join(os.path.dirname(c2['inp']), 'first.bam')
            tg.write(other, first, random.Random(rng.randrange(1 << 30)), method)
            c2['prerun_argv'] = [other] + c2['argv'][1:]
            c2['history'] = 'second_call_same_process'
        # (8) the literal default-options command line (-tagthreads unset = all CPUs, -temp_folder '.'), inputs whose index is
        #     missing or older than the BAM (verify_and_fix_bam rebuilds it), and - beyond the statement's default options -
        #     -max_associated_fragments 1, which makes the iterator's overflow arm emit duplicates as molecules of their own
        for k in range(2 if tier == 'quick' else 8):
            lay = tg.random_layout(rng, max_contigs=5)
            add(lay, METHODS[k % 3], 'multi', 0, False)
        for k, (state, mode) in enumerate([('missing', 'single'), ('missing', 'multi'), ('older', 'single'), ('older', 'multi')]):
            add(tg.random_layout(rng, max_contigs=4), METHODS[k % 2], mode, 2, False, index_state=state)
        ov = L(('chr1', 250_000, ['pair', 'dup', 'dup_lane', 'dup', 'single']), ('chrM', 2500, ['pair', 'dup', 'umi_bridge']))
        for method in ('nla', 'chic'):
            bs = rng.randrange(1 << 30)
            add(ov, method, 'single', 1, False, bamseed=bs, extra=['-max_associated_fragments', '1'])
            add(ov, method, 'multi', 2, False, bamseed=bs, extra=['-max_associated_fragments', '1'])
        # (7) history: the INPUT path is re-used - the same process tags in.bam, the file is replaced by a BAM with reads on
        #     other contigs (other contig set), and the same command runs again
        for k, (method, mode) in enumerate([('nla', 'multi'), ('chic', 'single'), ('nla', 'multi'), ('qflag', 'multi')]):
            first = tg.random_layout(rng, max_contigs=3, kinds=tg.SIMPLE_KINDS)
            if k < 2:     # same header, reads on the other contigs
                second = {'contigs': [dict(c, kinds=([] if c['kinds'] else ['pair', 'single'])) for c in first['contigs']],
                          'star': ['unplaced_single']}
                if not any(c['kinds'] for c in second['contigs']):
                    second['contigs'][0]['kinds'] = ['single']
                    first['contigs'][0]['kinds'] = []
            else:         # another contig set
                second = tg.random_layout(rng, max_contigs=5)
            add(second, method, mode, 2, False)
            c2 = cases[-1]
            real = os.path.join(os.path.dirname(c2['inp']), 'second.bam')
            os.replace(c2['inp'], real)
            os.replace(c2['inp'] + '.bai', real + '.bai')
            tg.write(c2['inp'], first, random.Random(rng.randrange(1 << 30)), method)
            c2['prerun_argv'] = list(c2['argv'])
            c2['swap_from'] = real
            c2['inp_observed'] = real
            c2['history'] = 'input_path_reused_with_other_content'
        # (4) one contig with more fragments than the molecule iterator's ejection interval (check_eject_every = 10 000):
        #     molecules are ejected while reading, not only at the end
        for k in range(1 if tier == 'quick' else 2):
            def many(n):
                return [rng.choice(['single'] * 10 + ['multi_umi', 'multi_umi', 'pair', 'dup', 'nomotif', 'half', 'orphan_r2', 'pair_rev',
                                    'umi_bridge']) for _ in range(n)]
            # the ejection check (every 10 000 fragments) fires after the contig change; k >= 1: a second check, again after a change;
            # several molecules of one (cell, cut site) bucket with different UMIs leave the buffer in the same round
            lay = {'contigs': [{'name': 'chr2', 'len': 2500, 'big': False, 'kinds': ['pair']},
                               {'name': 'chrDeep', 'len': 40_000_000, 'big': True, 'kinds': many(7000 + 3000 * k)},
                               {'name': 'chrAfter', 'len': 30_000_000, 'big': True, 'kinds': many(1600 + 8000 * (k > 0))},
                               {'name': 'chrLast', 'len': 99_999, 'big': False, 'kinds': ['multi_umi', 'single']}],
                   'star': ['unplaced_single'] * 2}
            bs = rng.randrange(1 << 30)
            method = ['nla', 'chic'][k % 2]
            add(lay, method, 'single', 1, False, bamseed=bs)
            if tier != 'quick':
                add(lay, method, "multi", 2, k == 1, bamseed=bs)
    results = th.run_cases(cases, workdir, parallel=8, timeout=300)
    with open(outp, 'w') as f:
        for c in cases:
            for e in events_for(c, results[c['id']], c['id']):
                f.write(json.dumps(e, separators=(',', ':')) + '\n')
    json.dump({'cases': len(cases), 'plan_only': sum(1 for c in cases if c['plan_only'])}, open(outp + '.meta', 'w'))


if __name__ == '__main__':
    main()
