"""X02 driver: whole libraries through the REAL chained pipeline  FASTQ -> demultiplexer -> (abstract aligner) -> tagger CLI
-> count table, one trace event per pipeline execution.

usage: drive_pipeline.py <out.ndjson> <tier> <seed> <scenarios.json|->
       drive_pipeline.py <out.ndjson> replay <case.json>        (re-run the recorded library with the recorded configuration)

Ground truth first: a library is described abstractly (per read pair: barcode kind ok / one mismatch / foreign, cell = whitelist
index, UMI, true locus = contig, cut-site coordinate, strand, or "insert not in the reference", lane, cluster coordinates, read
lengths) and the FASTQ bytes are derived from that description.  Stages (every file is re-read from disk between stages):

  demux   real loader loop (DemultiplexingStrategyLoader.demultiplex, strategy NLAIII384C8U3, joint sinks + rejects, one call
          per lane through the same handles) or the real entry point demux.py through runpy
  align   ABSTRACT AND TRUSTED: every record of the demultiplexed FASTQ files is searched (exact match, both orientations) in
          the synthetic reference and written as a BAM record with query_name = the demultiplexed header, sequence = the
          emitted sequence; not found = unmapped (an unmapped mate is placed at its mapped mate, a pair without any hit is
          unplaced).  Placement is decided by the SEQUENCE, identity by the HEADER: a stage that swaps one of them shows.
  tag     real bamtagmultiome.run_multiome_tagging_cmd  -method nla, single pass and --multiprocess on the same BAM
  count   real bamToCountTable.create_count_table  -sampleTags SM -joinedFeatureTags reference_name [-bin B]  x {--dedup} x {--r1only}

Only drives and records (lexical projections of files: header fields, tags, flags). Trace_Pipeline.tla judges.
"""
import contextlib
import gzip
import importlib.resources as resources
import io
import json
import os
import random
import re
import runpy
import shutil
import signal
import sys
import time
from types import SimpleNamespace

import pysam

import bamgen

STRATEGY = 'NLAIII384C8U3'
ALIAS = 'maya_384NLA'
X0 = 1000000                    # pair i carries cluster x coordinate X0 + i: its identity all the way to the tagged BAM
COMP = str.maketrans('ACGTN', 'TGCAN')
# 16 three-letter UMIs, pairwise Hamming distance >= 2 (third letter = checksum): the true molecule is unambiguous
UMIS = [a + b + 'ACGT'[(i + j) % 4] for i, a in enumerate('ACGT') for j, b in enumerate('ACGT')]
SEQ_INDICES = ['GTGAAA', 'ATCACG', 'CGATGT', 'TTAGGC', 'GTGAAA+TTTCAC']      # the last one is a dual index
CONTIG_POOL = ['chr10', 'chr2', 'chrM', 'scaffold_9', 'chr1', 'KI27', 'chrX', 'alt_3']
SMALL, BIG = [2500, 40_000, 99_999], [100_000, 100_001, 250_000]


def rc(s):
    return s.translate(COMP)[::-1]


def chars(s):
    return list(str(s))


# ------------------------------------------------------------------------------------------------
# generator knowledge (read independently of the code under test)

def read_whitelist():
    path = str(resources.files('singlecellmultiomics') / ('modularDemultiplexer/barcodes/%s.bc' % ALIAS))
    wl = {}
    with open(path) as f:
        for line in f:
            p = line.split()
            if len(p) == 2:
                wl[int(p[0])] = p[1]
    return wl


# ------------------------------------------------------------------------------------------------
# abstract library

def gen_reference(rng, contigs, sites):
    """contigs [(name, len)], sites {name: [pos]} -> {name: sequence} with CATG at every site"""
    ref = {}
    for name, ln in contigs:
        s = bytearray(''.join(rng.choices('ACGT', k=ln)), 'ascii')
        for p in sites.get(name, []):
            s[p:p + 4] = b'CATG'
        ref[name] = s.decode()
    return ref


def rand_seq(rng, n):
    return ''.join(rng.choices('ACGT', k=n))


def rand_qual(rng, n):
    return ''.join(chr(33 + rng.randint(12, 41)) for _ in range(n))


def make_pair(rng, wl, pid, bck, cell, umi, loc, mapc, lane):
    """one read pair of the abstract library. loc = [contig, pos, rev]; mapc: 'both' | 'r1' (insert of mate 2 foreign) | 'none'"""
    p = {'id': pid, 'x': X0 + pid, 'y': rng.randint(1000, 29999), 'tile': str(rng.choice([11101, 11102, 21304])), 'lane': lane,
         'bck': bck, 'cell': cell, 'mmpos': 0, 'mmbase': 'A', 'bad': [], 'umi': chars(umi),
         'c': loc[0] if mapc != 'none' else '', 'p': loc[1] if mapc != 'none' else 0, 'rev': bool(loc[2]) if mapc != 'none' else False,
         'map': mapc, 'l1': rng.randint(30, 60), 'l2': rng.randint(25, 60), 'gap': rng.choice([rng.randint(0, 60), rng.randint(60, 250)]),
         'primer': rand_seq(rng, 6)}
    if bck == 'mm':
        b = wl[cell]
        k = rng.randrange(len(b))
        p['mmpos'], p['mmbase'] = k + 1, rng.choice([x for x in 'ACGT' if x != b[k]])
    elif bck == 'bad':
        p['cell'] = 0
        while True:
            b = rand_seq(rng, 8)
            if b not in wl.values():
                break
        p['bad'] = chars(b)
    return p


def raw_barcode(wl, p):
    if p['bck'] == 'bad':
        return ''.join(p['bad'])
    b = wl[p['cell']]
    if p['bck'] == 'mm':
        b = b[:p['mmpos'] - 1] + p['mmbase'] + b[p['mmpos']:]
    return b


def realise(rng, wl, ref, p):
    """abstract pair -> the two inserts (stored in the description: they ARE what was sequenced) """
    if p['map'] == 'none':
        i1, i2 = 'CATG' + rand_seq(rng, p['l1'] - 4), rand_seq(rng, p['l2'])
    else:
        s, l1, l2, gap = ref[p['c']], p['l1'], p['l2'], p['gap']
        if not p['rev']:
            i1 = s[p['p']:p['p'] + l1]
            i2 = rc(s[p['p'] + gap:p['p'] + gap + l2])
        else:
            i1 = rc(s[p['p'] + 4 - l1:p['p'] + 4])
            i2 = s[p['p'] + 4 - gap - l2:p['p'] + 4 - gap]
        if p['map'] == 'r1':
            i2 = rand_seq(rng, l2)
    if not i1.startswith('CATG') or len(i1) != p['l1'] or len(i2) != p['l2']:
        raise RuntimeError('generator self-check: insert of pair %d does not start at a planted cut site' % p['id'])
    p['ins1'], p['ins2'] = i1, i2
    p['q1'], p['q2'] = rand_qual(rng, 11 + len(i1)), rand_qual(rng, 6 + len(i2))


def random_library(rng, wl, n_pairs, name):
    ncont = rng.choice([1, 2, 3, 4])
    names = rng.sample(CONTIG_POOL, ncont)
    contigs = [(nm, rng.choice(SMALL if rng.random() < 0.6 else BIG)) for nm in names]
    # cut sites: the same coordinate on several contigs, neighbours 4 apart, both strands of one site
    base = rng.randint(400, 1800)
    sites = {}
    for nm, ln in contigs:
        ps = {base}
        if rng.random() < 0.4:
            ps.add(base + 4)
        for _ in range(rng.choice([0, 1, 2])):
            q = rng.randint(400, ln - 400)
            if all(abs(q - x) >= 4 for x in ps):       # two planted CATG must not overwrite each other
                ps.add(q)
        sites[nm] = sorted(ps)
    loci = [[nm, p, rev] for nm, _ in contigs for p in sites[nm] for rev in (False, True)]
    cells = rng.sample(sorted(wl), rng.randint(2, 5))
    umis = rng.sample(UMIS, rng.randint(2, 4))
    lanes = rng.choice([1, 1, 2])
    # molecules with deliberate coincidences: few loci x few UMIs x few cells
    hot = rng.sample(loci, min(len(loci), rng.randint(1, 3)))
    pairs, pid = [], 0
    protos = []
    while len(protos) < n_pairs:
        cell, umi = rng.choice(cells), rng.choice(umis)
        loc = rng.choice(hot if rng.random() < 0.7 else loci)
        geom = (rng.randint(30, 60), rng.randint(25, 60), rng.choice([rng.randint(0, 60), rng.randint(60, 250)]))
        for _ in range(rng.choice([1, 1, 2, 3])):          # PCR copies: the same fragment again, or another priming position
            bck = rng.choices(['ok', 'mm', 'bad'], [75, 12, 13])[0]
            mapc = rng.choices(['both', 'r1', 'none'], [80, 8, 12])[0]
            protos.append((bck, cell, umi, loc, mapc, geom if rng.random() < 0.5 else None))
    protos = protos[:n_pairs]
    rng.shuffle(protos)
    for bck, cell, umi, loc, mapc, geom in protos:
        pid += 1
        p = make_pair(rng, wl, pid, bck, cell, umi, loc, mapc, rng.randint(1, lanes))
        if geom:
            p['l1'], p['l2'], p['gap'] = geom
        pairs.append(p)
    pairs.sort(key=lambda p: p['lane'])           # a lane is one file pair; ids stay unique over the library
    return finish_library(rng, wl, name, contigs, sites, pairs, lanes)


def finish_library(rng, wl, name, contigs, sites, pairs, lanes):
    ref = gen_reference(rng, contigs, sites)
    for p in pairs:
        realise(rng, wl, ref, p)
    hdr = {'is': rng.choice(['NS500414', 'M00123', 'A00-12_x']), 'rn': str(rng.randint(1, 999)),
           'fc': rng.choice(['H7YVNBGXC', 'HFCX2', '000000000-ABCDE']), 'idx': rng.choice(SEQ_INDICES)}
    return {'name': name, 'contigs': [[n, l] for n, l in contigs], 'sites': sites, 'pairs': pairs, 'lanes': lanes, 'hdr': hdr}, ref


def scenario_library(rng, wl, scn, name):
    """a small library printed by TLC (Pipeline!Emit): abstract cells / UMIs / loci are mapped to concrete ones here"""
    cells = rng.sample(sorted(wl), 4)
    umis = rng.sample(UMIS, 4)
    names = rng.sample(CONTIG_POOL, 3)
    contigs = [(nm, rng.choice(SMALL + BIG)) for nm in names]
    pos = [rng.randint(400, 1800)]
    pos.append(pos[0] + rng.choice([4, 37, 300]))
    sites = {nm: list(pos) for nm, _ in contigs}
    pairs = []
    for i, a in enumerate(scn['lib'], start=1):
        mapc = 'none' if a['loc']['c'] == 0 else ('r1' if a['loc'].get('half') else 'both')
        loc = [names[a['loc']['c'] - 1], pos[a['loc']['p'] - 1], a['loc']['rev']] if mapc != 'none' else ['', 0, False]
        pairs.append(make_pair(rng, wl, i, a['bc'], cells[a['cell'] - 1] if a['cell'] else 0, umis[a['umi'] - 1], loc, mapc, 1))
    return finish_library(rng, wl, name, contigs, sites, pairs, 1)


# ------------------------------------------------------------------------------------------------
# stage 1: demultiplexing (real code)

def fastq_header(lib, p, mate):
    h = lib['hdr']
    return '@%s:%s:%s:%d:%s:%d:%d %d:N:0:%s' % (h['is'], h['rn'], h['fc'], p['lane'], p['tile'], p['x'], p['y'], mate, h['idx'])


def write_fastq(d, lib, wl, illumina_names):
    """-> [[R1 path, R2 path] per lane]"""
    out = []
    for lane in range(1, lib['lanes'] + 1):
        files = []
        for mate in (1, 2):
            fn = '%s_L%03d_R%d_001.fastq.gz' % (lib['name'], lane, mate) if illumina_names else '%s_R%d.fastq.gz' % (lib['name'], mate)
            path = os.path.join(d, fn)
            with gzip.open(path, 'wt') as f:
                for p in lib['pairs']:
                    if p['lane'] != lane:
                        continue
                    if mate == 1:
                        seq, q = ''.join(p['umi']) + raw_barcode(wl, p) + p['ins1'], p['q1']
                    else:
                        seq, q = p['primer'] + p['ins2'], p['q2']
                    f.write('%s\n%s\n+\n%s\n' % (fastq_header(lib, p, mate), seq, q))
            files.append(path)
        out.append(files)
    return out


class Loader:
    """the demultiplexer configured like demux.py does, once per barcode Hamming distance"""
    _cache = {}

    def __init__(self, hd):
        import singlecellmultiomics.barcodeFileParser.barcodeFileParser as bfp
        from singlecellmultiomics.modularDemultiplexer.demultiplexingStrategyLoader import DemultiplexingStrategyLoader
        bdir = str(resources.files('singlecellmultiomics') / 'modularDemultiplexer/barcodes/')
        idir = str(resources.files('singlecellmultiomics') / 'modularDemultiplexer/indices/')
        with contextlib.redirect_stdout(io.StringIO()):
            bp = bfp.BarcodeParser(hammingDistanceExpansion=hd, barcodeDirectory=bdir, lazyLoad='*')
            ip = bfp.BarcodeParser(hammingDistanceExpansion=1, barcodeDirectory=idir, lazyLoad='*')
            self.dmx = DemultiplexingStrategyLoader(barcodeParser=bp, indexParser=ip, only_detect_methods=None,
                                                    indexFileAlias='illumina_merged_ThruPlex48S_RP')
            self.strategies = self.dmx.getSelectedStrategiesFromStringList([STRATEGY], verbose=False)

    @classmethod
    def get(cls, hd):
        if hd not in cls._cache:
            cls._cache[hd] = Loader(hd)
        return cls._cache[hd]


def demux_api(lib, lanes, hd, outdir):
    from singlecellmultiomics.fastqProcessing.fastqHandle import FastqHandle
    ld = Loader.get(hd)
    target = os.path.join(outdir, lib['name'])
    os.makedirs(target)
    handle = FastqHandle(target + '/demultiplexed', True)
    rej = FastqHandle(target + '/rejects', True)
    raised, total = '', 0
    try:
        with contextlib.redirect_stdout(io.StringIO()):
            for files in lanes:
                n, _ = ld.dmx.demultiplex(files, strategies=ld.strategies, targetFile=handle, rejectHandle=rej, library=lib['name'])
                total += n
    except Exception as ex:          # a crash of the code under test is an observation
        raised = type(ex).__name__
    for h in (handle, rej):
        try:
            h.close()
        except Exception as ex:
            raised = raised or 'close:' + type(ex).__name__
    return raised, total, target


def demux_cli(lib, lanes, hd, outdir):
    argv = ['demux.py'] + [f for pair in lanes for f in pair] + ['-use', STRATEGY, '--y', '-o', outdir, '-hd', str(hd)]
    raised, old = '', sys.argv
    sys.argv = argv
    try:
        with contextlib.redirect_stdout(io.StringIO()):
            runpy.run_module('singlecellmultiomics.modularDemultiplexer.demux', run_name='__main__')
    except SystemExit as ex:
        if ex.code not in (0, None):
            raised = 'SystemExit'
    except Exception as ex:
        raised = type(ex).__name__
    finally:
        sys.argv = old
    import gc
    gc.collect()
    target = os.path.join(outdir, lib['name'])
    total = -1
    try:
        with open(os.path.join(target, 'demultiplexing.log')) as f:
            got = [int(m.group(1)) for m in re.finditer(r'processed (\d+) read pairs', f.read())]
            total = sum(got) if got else -1
    except OSError:
        pass
    return raised, total, target


def lex_header(h):
    """'@a:b;c:d' -> {'a': 'b', 'c': 'd'} (lexical projection; the '@' of the FASTQ line is dropped)"""
    out = {}
    for part in h[1:].split(';'):
        k, _, v = part.partition(':')
        out.setdefault(k, v)
    return out


def read_fastq(path):
    if not os.path.exists(path):
        return None
    with gzip.open(path, 'rt') as f:
        lines = f.read().split('\n')
    if lines and lines[-1] == '':
        lines.pop()
    return [lines[i:i + 4] + [''] * (4 - len(lines[i:i + 4])) for i in range(0, len(lines), 4)]


def fq_projection(recs, full):
    out = []
    for h, s, _, q in recs or []:
        t = lex_header(h)
        cx = t.get('CX', '')
        e = {'cx': int(cx) if cx.isdigit() else -1, 'la': t.get('La', ''), 'rr': 'RR' in t, 'seq': s, 'ql': len(q)}
        if full:
            e.update(bi=t.get('bi', ''), rx=chars(t.get('RX', '')), bcr=chars(t.get('bc', '')), BC=chars(t.get('BC', '')),
                     ly=t.get('LY', ''), mx=t.get('MX', ''), rs=t.get('rS', ''), aa=t.get('aa', ''))
        out.append(e)
    return out


# ------------------------------------------------------------------------------------------------
# stage 2: the abstract aligner (trusted)

def find(ref, order, seq):
    """exact match in either orientation -> (contig, pos, reverse) | None"""
    if len(seq) < 12:
        return None
    for name in order:
        s = ref[name]
        k = s.find(seq)
        if k >= 0:
            return name, k, False
        k = s.find(rc(seq))
        if k >= 0:
            return name, k, True
    return None


def align(lib, ref, r1recs, r2recs, bam_path):
    """demultiplexed FASTQ records (in file order, lock step) -> coordinate sorted, indexed BAM; returns the projection of what
    was written (the input of the tagging stage)"""
    order = [n for n, _ in lib['contigs']]
    header = bamgen.make_header(lib['contigs'])
    reads, proj = [], []
    for (h1, s1, _, q1), (h2, s2, _, q2) in zip(r1recs, r2recs):
        a = [find(ref, order, s1), find(ref, order, s2)]
        seqs, quals, names = [s1, s2], [q1, q2], [h1[1:].split()[0], h2[1:].split()[0]]
        recs = []
        for m in (0, 1):
            me, mate = a[m], a[1 - m]
            kw = dict(paired=True, read1=(m == 0), read2=(m == 1), mate_unmapped=mate is None)
            if me is not None:
                c, pos, rev = me
                kw.update(reverse=rev)
                if mate is not None:
                    lo = min(pos, mate[1])
                    hi = max(pos + len(seqs[m]), mate[1] + len(seqs[1 - m]))
                    left = pos < mate[1] or (pos == mate[1] and m == 0)
                    kw.update(proper=mate[0] == c, mate_contig=mate[0], mate_pos=mate[1], mate_reverse=mate[2],
                              tlen=((hi - lo) if left else -(hi - lo)) if mate[0] == c else 0)
                else:
                    kw.update(mate_contig=c, mate_pos=pos)
                r = bamgen.make_read(header, names[m], c, pos, rc(seqs[m]) if rev else seqs[m],
                                     quals[m][::-1] if rev else quals[m], **kw)
            elif mate is not None:        # unmapped mate placed at the mapped one
                r = bamgen.make_read(header, names[m], mate[0], mate[1], seqs[m], quals[m], unmapped=True,
                                     mate_contig=mate[0], mate_pos=mate[1], mate_reverse=mate[2], **kw)
            else:
                r = bamgen.make_read(header, names[m], None, 0, seqs[m], quals[m], unmapped=True, **kw)
            recs.append(r)
        reads += recs
    bamgen.write_bam(bam_path, header, reads)
    return [{k: e[k] for k in ('cx', 'mate', 'unmapped', 'ref', 'pos', 'rend', 'rev', 'seq')} for e in read_bam(bam_path, tagged=False)]


def read_bam(path, tagged):
    """lexical projection of every record of a BAM file re-read from disk"""
    out = []
    with pysam.AlignmentFile(path, check_sq=False) as f:
        for r in f.fetch(until_eof=True):
            name = r.query_name
            e = {'name': name, 'mate': 1 if r.is_read1 else (2 if r.is_read2 else 0), 'unmapped': bool(r.is_unmapped),
                 'ref': r.reference_name or '', 'pos': int(r.reference_start) if r.reference_start is not None else -1,
                 'rend': int(r.reference_end) if (not r.is_unmapped and r.reference_end is not None) else -1,
                 'rev': bool(r.is_reverse), 'seq': r.query_sequence or '', 'qcfail': bool(r.is_qcfail), 'dup': bool(r.is_duplicate),
                 'sec': bool(r.is_secondary or r.is_supplementary)}
            if tagged:
                t = dict(r.get_tags())
                g = lambda k: str(t[k]) if k in t else ''
                cx = g('CX')
                e.update(cx=int(cx) if cx.isdigit() else -1, SM=g('SM'), RX=chars(g('RX')), BC=chars(g('BC')), bcr=chars(g('bc')),
                         LY=g('LY'), La=g('La'), Fc=g('Fc'), MX=g('MX'), MI=g('MI'), aa=g('aa'), aA=g('aA'), RG=g('RG'), hasDS='DS' in t,
                         DS=int(t['DS']) if isinstance(t.get('DS'), int) else -1,
                         hasRS='RS' in t, RS=int(t['RS']) if isinstance(t.get('RS'), int) else -1, RR=g('RR'), bi=g('bi'))
            else:
                cx = lex_header('@' + name).get('CX', '')
                e['cx'] = int(cx) if cx.isdigit() else -1
            out.append(e)
    return out


# ------------------------------------------------------------------------------------------------
# stage 3: tagging (real CLI entry), stage 4: count table (real)

def tag(bam, out, mode, threads, uhd, tmp):
    import singlecellmultiomics.universalBamTagger.bamtagmultiome as tm
    tm.sleep = lambda s: None          # harness-side patch that only removes waiting
    argv = [bam, '-method', 'nla', '-o', out, '-umi_hamming_distance', str(uhd)]
    if mode == 'multi':
        argv += ['--multiprocess', '-tagthreads', str(threads), '-temp_folder', tmp]
    raised = ''
    try:
        with contextlib.redirect_stdout(io.StringIO()), contextlib.redirect_stderr(io.StringIO()):
            tm.run_multiome_tagging_cmd(argv)
    except BaseException as ex:      # noqa  (SystemExit of argparse included): an observation
        raised = type(ex).__name__
    status = ''
    try:
        with open(out.replace('.bam', '.status.txt')) as f:
            status = f.read().strip()
    except OSError:
        pass
    return raised, status


def count(ct, bam, dedup, r1only, binsize):
    args = SimpleNamespace(
        alignmentfiles=[bam], head=None, o=None, bin=binsize or None, binTag='DS', sliding=None, bedfile=None, showtags=False,
        featureTags=None, joinedFeatureTags='reference_name', byValue=None, sampleTags='SM', proper_pairs_only=False,
        no_indels=False, max_base_edits=None, no_softclips=False, minMQ=0, filterXA=False, dedup=dedup, divideMultimapping=False,
        doNotDivideFragments=False, contig=None, blacklist=None, r1only=r1only, r2only=False, filterMP=False, splitFeatures=False,
        feature_delimiter=',', featureDelimiter=',', noNames=False, keepOverBounds=True, bulk=False)
    raised, rows = '', []
    try:
        with contextlib.redirect_stdout(io.StringIO()):
            df = ct.create_count_table(args, return_df=True)
        for col in df.columns:
            sm = col[0] if isinstance(col, tuple) else col
            for idx, v in df[col].items():
                if v != v:
                    continue
                key = list(idx) if isinstance(idx, tuple) else [idx]
                w2 = float(v) * 2
                rows.append({'sm': str(sm), 'key': [str(x) for x in key], 'w2': int(round(w2)), 'exact': abs(w2 - round(w2)) < 1e-9})
    except Exception as ex:
        raised = type(ex).__name__
    return {'dedup': dedup, 'r1only': r1only, 'bin': binsize, 'raised': raised, 'rows': rows}


# ------------------------------------------------------------------------------------------------
# one pipeline execution

def run_pipeline(tid, src, lib, ref, cfg, wl, workdir):
    import singlecellmultiomics.bamProcessing.bamToCountTable as ct
    d = os.path.join(workdir, 'p%d' % tid)
    os.makedirs(d)
    ev = {'ev': 'pipeline', 'tid': tid, 'src': src, 'cfg': cfg, 'strategy': STRATEGY,
          'lib': {'name': lib['name'], 'contigs': lib['contigs'], 'lanes': lib['lanes'], 'hdr': lib['hdr'],
                  'pairs': [{k: v for k, v in p.items() if k not in ('q1', 'q2')} for p in lib['pairs']]}}
    try:
        lanes = write_fastq(d, lib, wl, illumina_names=lib['lanes'] > 1)
        outdir = os.path.join(d, 'dmx')
        raised, total, target = (demux_api if cfg['entry'] == 'api' else demux_cli)(lib, lanes, cfg['hd'], outdir)
        f = {k: read_fastq(os.path.join(target, k + '.fastq.gz')) for k in ('demultiplexedR1', 'demultiplexedR2', 'rejectsR1', 'rejectsR2')}
        ev['demux'] = {'raised': raised, 'processed': int(total), 'files': [k for k in sorted(f) if f[k] is not None],
                       'd1': fq_projection(f['demultiplexedR1'], True), 'd2': fq_projection(f['demultiplexedR2'], True),
                       'r1': fq_projection(f['rejectsR1'], False), 'r2': fq_projection(f['rejectsR2'], False)}
        bam = os.path.join(d, 'aligned.bam')
        ev['aln'] = align(lib, ref, f['demultiplexedR1'] or [], f['demultiplexedR2'] or [], bam)
        ev['runs'] = []
        for mode in cfg['modes']:
            out = os.path.join(d, 'tagged_%s.bam' % mode)
            raised, status = tag(bam, out, mode, cfg['threads'], cfg['uhd'], d)
            run = {'mode': mode, 'raised': raised, 'status': status, 'recs': [], 'tables': [], 'readable': False}
            if os.path.exists(out):
                try:
                    run['recs'] = read_bam(out, tagged=True)
                    run['readable'] = True
                except Exception:
                    pass
            if run['readable']:
                for dedup, r1only, b in cfg['tables']:
                    run['tables'].append(count(ct, out, dedup, r1only, b))
            ev['runs'].append(run)
    finally:
        shutil.rmtree(d, True)
    return ev


def lib_name(rng, cfg, stem, tid):
    """header-safe library names (letters, digits, '-', '_'); demux.py derives the name from the file names: kept plain there"""
    if cfg['entry'] == 'cli':
        return '%s%d' % (stem, tid % 1000)
    return rng.choice(['%s%d', 'my-%s_%d', '%s-x_%d-A', '%s%d']) % (stem, tid % 1000)


def configs_for(rng, k, tier):
    cfg = {'hd': rng.choice([0, 1]), 'entry': 'cli' if k % 7 == 3 else 'api', 'uhd': rng.choice([0, 1]), 'threads': rng.choice([1, 2, 3]),
           'modes': ['single', 'multi']}
    b = rng.choice([0, 0, 100, 1000])
    cfg['tables'] = [[d, r, bb] for d in (False, True) for r in (False, True) for bb in ([0, b] if b and d else [0])]
    return cfg


# ------------------------------------------------------------------------------------------------

def worker(jobs, wl, workdir, part):
    with open(part, 'w') as f:
        for tid, src, kind, payload, cfg, lseed, name in jobs:
            rng = random.Random(lseed)
            if kind == 'random':
                lib, ref = random_library(rng, wl, payload, name)
            else:
                lib, ref = scenario_library(rng, wl, payload, name)
            ev = run_pipeline(tid, src, lib, ref, cfg, wl, workdir)
            # everything needed to regenerate exactly this library and configuration (./check X02 --replay)
            ev['gen'] = {'kind': kind, 'payload': payload, 'lseed': lseed, 'name': name}
            f.write(json.dumps(ev, separators=(',', ':')) + '\n')
            f.flush()


def run_parallel(jobs, wl, workdir, nproc, timeout):
    """fork nproc children over interleaved job slices (a job's result depends on its own seed only)"""
    parts, pids = [], []
    for k in range(nproc):
        mine = jobs[k::nproc]
        if not mine:
            continue
        part = os.path.join(workdir, 'part%d.ndjson' % k)
        parts.append(part)
        pid = os.fork()
        if pid == 0:
            code = 0
            try:
                os.setsid()
                worker(mine, wl, workdir, part)
            except BaseException:      # noqa
                import traceback
                traceback.print_exc()
                code = 3
            sys.stdout.flush()
            sys.stderr.flush()
            os._exit(code)
        pids.append(pid)
    deadline = time.time() + timeout
    failed = []
    for pid in pids:
        while True:
            done, st = os.waitpid(pid, os.WNOHANG)
            if done:
                if st != 0:
                    failed.append((pid, st))
                break
            if time.time() > deadline:
                try:
                    os.killpg(pid, signal.SIGKILL)
                except OSError:
                    pass
                os.waitpid(pid, 0)
                failed.append((pid, 'timeout'))
                break
            time.sleep(0.05)
    if failed:
        raise RuntimeError('pipeline workers failed: %r' % failed)
    events = []
    for part in parts:
        with open(part) as f:
            events += [json.loads(x) for x in f if x.strip()]
    events.sort(key=lambda e: e['tid'])
    return events


def main():
    outp, tier = sys.argv[1], sys.argv[2]
    import logging
    logging.disable(logging.CRITICAL)
    wl = read_whitelist()
    workdir = os.path.join(os.getcwd(), 'x02_work')
    os.makedirs(workdir, exist_ok=True)
    import singlecellmultiomics.universalBamTagger.bamtagmultiome  # noqa: F401  warm imports before forking
    import singlecellmultiomics.bamProcessing.bamToCountTable      # noqa: F401
    jobs = []
    if tier == 'replay':
        with open(sys.argv[3]) as f:
            case = json.load(f)
        ev = case['case']['event'] if 'case' in case else case
        g = ev['gen']
        jobs.append((2, ev.get('src', 'replay'), g['kind'], g['payload'], ev['cfg'], g['lseed'], g['name']))
        Loader.get(ev['cfg']['hd'])
    else:
        seed = int(sys.argv[3])
        scn_file = sys.argv[4] if len(sys.argv) > 4 else '-'
        rng = random.Random(seed)
        Loader.get(0)
        Loader.get(1)
        tid = 1          # line 1 of the trace is the whitelist
        if scn_file != '-':
            with open(scn_file) as f:
                for s in json.load(f):
                    tid += 1
                    cfg = configs_for(rng, tid, tier)
                    cfg['hd'] = s['hd']
                    jobs.append((tid, 'scenario', 'scenario', s, cfg, rng.randrange(1 << 30), lib_name(rng, cfg, 'SCN', tid)))
        n_rand, n_pairs = (15, 60) if tier == 'quick' else (300, 60)
        for k in range(n_rand):
            tid += 1
            jobs.append((tid, 'random', 'random', rng.choice([20, 120]) if k % 5 == 4 else n_pairs,
                         configs_for(rng, tid, tier), rng.randrange(1 << 30), ''))
            jobs[-1] = jobs[-1][:6] + (lib_name(rng, jobs[-1][4], 'LIB', tid),)
    nproc = int(os.environ.get('X02_PROCS', '6'))
    events = run_parallel(jobs, wl, workdir, nproc, timeout=3000)
    with open(outp, 'w') as f:
        if True:
            f.write(json.dumps({'ev': 'whitelist', 'tid': 1, 'alias': ALIAS, 'strategy': STRATEGY,
                                'wl': [[k, chars(v), v] for k, v in sorted(wl.items())]}, separators=(',', ':')) + '\n')
        for e in events:
            f.write(json.dumps(e, separators=(',', ':')) + '\n')
    shutil.rmtree(workdir, True)


if __name__ == '__main__':
    main()
