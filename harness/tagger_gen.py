"""Synthetic inputs for the tagger checks (C05, C20): abstract contig layout -> fragments -> BAM.

The mate number is promised (pm = 1/2) for every record whose mate is also in the file (literal reading of "when both
mates are present"): proper pairs, half-mapped pairs, pairs on different contigs, unmapped pairs; not for orphans/singles.

The abstract description comes first (layout: contigs with a length class and a number of fragments,
number of unplaced fragments; per fragment a *kind*), the BAM bytes are derived from it, and the ground
truth the property needs (is the mate number promised? is the fragment a valid one for the protocol?)
is part of the description, never recomputed from the implementation.

Fragment kinds (what the mate-pairing library delivers is taken as given, the statement excludes it):
  pair        R1 forward starting with CATG + R2 reverse, same contig          both mates delivered together
  pair_rev    R1 reverse ending with CATG + R2 forward
  dup         copy of the previous pair (same site, sample, UMI): a PCR duplicate of the same molecule
  single      unpaired forward read starting with CATG
  nomotif     pair whose R1 has no CATG                                        invalid for nla, valid for chic
  qcfail      pair with the QC-fail bit set                                    invalid
  half        R1 mapped (mate unmapped), R2 unmapped placed at R1              R1 valid alone, R2 orphan invalid
  orphan_r2   only R2 present (mate announced on the same contig, absent)      invalid (no R1)
  orphan_r1   only R1 present, paired bit set, mate absent                     valid
  secondary   a secondary alignment of an extra read (outside the claim)
  sec_only    nothing but a supplementary alignment (outside the claim): the contig has reads, yet no molecule is written
  orphan_unmapped  an unmapped read placed on the contig whose mapped mate is absent (idxstats: 0 mapped, 1 unmapped)
  half_r1u    R1 unmapped (placed at R2), R2 mapped: both mates in the file, delivered one by one   both invalid
  cross       R1 on this contig, R2 on another contig of the layout (falls back to `pair` when there is none)
  unmapped_placed_pair  both mates unmapped but placed on the contig                               invalid
  umi_bridge  three pairs of one cell at one cut site with UMIs A, B (distance 2) and then C at distance 1 of both:
              C matches two buffered molecules and must join exactly one of them
  untagged    a proper pair without SM/RX/... tags whose read name carries no demultiplexing information: the tagger
              cannot assign it to a cell (C20: data-driven failure; not part of the random C05 kinds)
  pos0        unpaired forward read at coordinate 0 of the contig
  contig_end  unpaired reverse read whose last aligned base is the last base of the contig
  cigar       pair with soft clip / insertion / deletion / skipped region / hard clip in its CIGARs
  minimal_tags  read that only carries SM and RX (no flowcell / lane / library / barcode tags)
  multi_umi   three pairs of one cell at one cut site with pairwise distant UMIs (AAA, CCC, GGG): three molecules in one
              buffer bucket of the molecule iterator, ejected in the same round
  dup_lane    copy of the previous pair sequenced on another lane / flowcell: same molecule, different read group,
              and that read group is not the first fragment of any molecule
  unplaced_pair / unplaced_single   unmapped, no position                      invalid
"""
import random

import bamgen

SMALL_LENGTHS = [2500, 40_000, 99_999]
BIG_LENGTHS = [100_000, 100_001, 250_000]
THRESHOLD = 100_000

PLACED_KINDS = ['pair', 'pair_rev', 'dup', 'single', 'nomotif', 'qcfail', 'half', 'orphan_r2', 'orphan_r1', 'secondary',
                'dup_lane', 'orphan_unmapped', 'sec_only', 'half_r1u', 'cross', 'unmapped_placed_pair', 'umi_bridge',
                'pos0', 'contig_end', 'cigar', 'minimal_tags', 'multi_umi']
SIMPLE_KINDS = ['pair', 'single', 'pair_rev']
UNPLACED_KINDS = ['unplaced_pair', 'unplaced_single']

_QUALS = 'FJA<7-IE!#'          # includes phred 0 ('!')


def contig_names(k, rng):
    """Names whose lexicographic order differs from the header order."""
    pool = ['chr10', 'chr2', 'chrM', 'scaffold_9', 'chr1', 'KI27', 'chrX', 'alt_3', 'chr11', 'GL00', 'chrY', 'chr3', 'un_7', 'chr20',
            'chr1_alt', '1',           # names that are prefixes / substrings of each other
            'HLA-A*01:01:01:01', 'HLA-B*07:02', 'un|k=1', 'chr7:alt;2']   # legal SAM names with * : | = ; (hg38 HLA set ...)
    rng.shuffle(pool)
    return pool[:k]


def layout_from_scenario(scn, rng, kinds=None):
    """scn = {'contigs': [{'big': bool, 'n': int}, ...], 'nstar': int} (as printed by JobPlan!Emit) -> full layout."""
    names = contig_names(len(scn['contigs']), rng)
    contigs = []
    for nm, c in zip(names, scn['contigs']):
        ln = rng.choice(BIG_LENGTHS if c['big'] else SMALL_LENGTHS)
        if c.get('um'):          # the contig's only records are placed unmapped reads
            ks = ['orphan_unmapped'] * c['n']
        else:
            ks = [rng.choice(kinds or PLACED_KINDS) for _ in range(c['n'])]
        contigs.append({'name': nm, 'len': ln, 'big': bool(c['big']), 'kinds': ks})
    star = [rng.choice(UNPLACED_KINDS) for _ in range(scn['nstar'])]
    return {'contigs': contigs, 'star': star}


def random_layout(rng, max_contigs=12, max_n=4, kinds=None):
    k = rng.randint(1, max_contigs)
    scn = {'contigs': [{'big': rng.random() < 0.45, 'n': rng.choice([0, 1, 1, 2, rng.randint(0, max_n)])} for _ in range(k)],
           'nstar': rng.choice([0, 0, 1, 2, 3])}
    return layout_from_scenario(scn, rng, kinds)


def _seq(rng, n, start='', end=''):
    body = ''.join(rng.choice('ACGTACGTACGTACGTN') for _ in range(n - len(start) - len(end)))       # an occasional N
    s = start + body + end
    # never contain CATG by accident at either end, never a long homopolymer
    return s


def _no_catg(rng, n):
    while True:
        s = ''.join(rng.choice('ACGT') for _ in range(n))
        if not s.startswith('CATG') and not s.endswith('CATG') and not s.startswith('ATG') and not s.endswith('CAT'):
            return s


def _qual(rng, n):
    return ''.join(rng.choice(_QUALS) for _ in range(n))


def build(layout, rng, method='nla'):
    """-> (header, reads (pysam records, coordinate sorted by write_bam), truth)

    truth: {(name, matebit): {'pm': 0|1|2, 'valid': bool, 'kind': str, 'contig': str}}  matebit: 1, 2 or 0
    """
    header = bamgen.make_header([(c['name'], c['len']) for c in layout['contigs']])
    reads, truth = [], {}
    serial = [0]

    def tags(sample, umi):
        t = {'SM': sample, 'RX': umi, 'BC': 'ACGTACGT', 'Fc': 'FCX1', 'La': rng.choice(['1', '2', '0']), 'LY': sample.split('_')[0]}
        if method == 'nla':
            t['MX'] = 'NLAIII384C8U3'
        return t

    def note(name, bit, pm, valid, kind, contig):
        truth[(name, bit)] = {'pm': pm, 'valid': bool(valid), 'kind': kind, 'contig': contig}

    def newname(kind):
        serial[0] += 1
        return 'NS500:%d:HFC:1:11101:%d:%d_%s' % (serial[0], 1000 + serial[0], 2000 + 7 * serial[0], kind)

    for c in layout['contigs']:
        prev = None
        for fi, kind in enumerate(c['kinds']):
            span = max(200, (c['len'] - 400) // max(1, len(c['kinds'])))
            pos = 100 + fi * min(span, 1500)
            if fi == len(c['kinds']) - 1 and rng.random() < 0.3:
                pos = c['len'] - 120          # a fragment close to the contig end
            l1, l2 = rng.randint(20, 30), rng.randint(20, 30)
            sample = rng.choice(['LIBA_%d', 'LIBA_%d', 'LIB.B-x_%d']) % rng.randint(1, 3)     # also '.' and '-' in names
            umi = ''.join(rng.choice('ACGT') for _ in range(3))
            name = newname(kind)
            tg = tags(sample, umi)
            cn = c['name']
            if kind in ('dup', 'dup_lane') and prev is None:
                kind = 'pair'
            if kind in ('pair', 'dup', 'dup_lane', 'nomotif', 'qcfail'):
                if kind in ('dup', 'dup_lane'):
                    pos, l1, l2, tg = prev['pos'], prev['l1'], prev['l2'], dict(prev['tg'])
                if kind == 'dup_lane':
                    tg['La'] = str(5 + serial[0] % 4)     # lanes 5..8 on a second flowcell are used by nothing else
                    tg['Fc'] = 'FCY2'
                s1 = _no_catg(rng, l1) if kind == 'nomotif' else _seq(rng, l1, start='CATG')
                p2 = pos + 40
                r1 = bamgen.make_read(header, name, cn, pos, s1, _qual(rng, l1), paired=True, proper=True, read1=True,
                                      mate_contig=cn, mate_pos=p2, mate_reverse=True, tlen=40 + l2, qcfail=(kind == 'qcfail'), tags=tg)
                r2 = bamgen.make_read(header, name, cn, p2, _seq(rng, l2), _qual(rng, l2), paired=True, proper=True, read2=True,
                                      reverse=True, mate_contig=cn, mate_pos=pos, tlen=-(40 + l2), qcfail=(kind == 'qcfail'), tags=tg)
                reads += [r1, r2]
                valid = {'pair': True, 'dup': True, 'dup_lane': True, 'qcfail': False, 'nomotif': method != 'nla'}[kind]
                note(name, 1, 1, valid, kind, cn)
                note(name, 2, 2, valid, kind, cn)
                if kind == 'pair':
                    prev = {'pos': pos, 'l1': l1, 'l2': l2, 'tg': tg}
            elif kind == 'pair_rev':
                p1 = pos + 40
                r1 = bamgen.make_read(header, name, cn, p1, _seq(rng, l1, end='CATG'), _qual(rng, l1), paired=True, proper=True,
                                      read1=True, reverse=True, mate_contig=cn, mate_pos=pos, tlen=-(40 + l1), tags=tg)
                r2 = bamgen.make_read(header, name, cn, pos, _seq(rng, l2), _qual(rng, l2), paired=True, proper=True, read2=True,
                                      mate_contig=cn, mate_pos=p1, mate_reverse=True, tlen=40 + l1, tags=tg)
                reads += [r2, r1]
                note(name, 1, 1, True, kind, cn)
                note(name, 2, 2, True, kind, cn)
            elif kind == 'single':
                reads.append(bamgen.make_read(header, name, cn, pos, _seq(rng, l1, start='CATG'), _qual(rng, l1), tags=tg))
                note(name, 0, 0, True, kind, cn)
            elif kind == 'half':
                r1 = bamgen.make_read(header, name, cn, pos, _seq(rng, l1, start='CATG'), _qual(rng, l1), paired=True, read1=True,
                                      mate_contig=cn, mate_pos=pos, mate_unmapped=True, tags=tg)
                r2 = bamgen.make_read(header, name, cn, pos, _seq(rng, l2), _qual(rng, l2), paired=True, read2=True, unmapped=True,
                                      mate_contig=cn, mate_pos=pos, tags=tg)
                reads += [r1, r2]
                note(name, 1, 1, True, kind, cn)
                note(name, 2, 2, False, kind, cn)
            elif kind == 'half_r1u':
                r1 = bamgen.make_read(header, name, cn, pos, _seq(rng, l1, start='CATG'), _qual(rng, l1), paired=True, read1=True,
                                      unmapped=True, mate_contig=cn, mate_pos=pos, mate_reverse=True, tags=tg)
                r2 = bamgen.make_read(header, name, cn, pos, _seq(rng, l2), _qual(rng, l2), paired=True, read2=True, reverse=True,
                                      mate_contig=cn, mate_pos=pos, mate_unmapped=True, tags=tg)
                reads += [r1, r2]
                note(name, 1, 1, False, kind, cn)
                note(name, 2, 2, False, kind, cn)
            elif kind == 'unmapped_placed_pair':
                for bit, ln in ((1, l1), (2, l2)):
                    reads.append(bamgen.make_read(header, name, cn, pos, _seq(rng, ln), _qual(rng, ln), paired=True, read1=(bit == 1),
                                                  read2=(bit == 2), unmapped=True, mate_unmapped=True, mate_contig=cn, mate_pos=pos,
                                                  tags=tg))
                    note(name, bit, bit, False, kind, cn)
            elif kind == 'cross':
                others = [o for o in layout['contigs'] if o['name'] != cn and o['kinds'] and set(o['kinds']) != {'orphan_unmapped'}]
                if not others:
                    r1 = bamgen.make_read(header, name, cn, pos, _seq(rng, l1, start='CATG'), _qual(rng, l1), paired=True, proper=True,
                                          read1=True, mate_contig=cn, mate_pos=pos + 40, mate_reverse=True, tlen=40 + l2, tags=tg)
                    r2 = bamgen.make_read(header, name, cn, pos + 40, _seq(rng, l2), _qual(rng, l2), paired=True, proper=True,
                                          read2=True, reverse=True, mate_contig=cn, mate_pos=pos, tlen=-(40 + l2), tags=tg)
                    reads += [r1, r2]
                    note(name, 1, 1, True, 'pair', cn)
                    note(name, 2, 2, True, 'pair', cn)
                else:
                    o = others[serial[0] % len(others)]
                    p2 = min(60 + 17 * (serial[0] % 50), o['len'] - 100)
                    r1 = bamgen.make_read(header, name, cn, pos, _seq(rng, l1, start='CATG'), _qual(rng, l1), paired=True, read1=True,
                                          mate_contig=o['name'], mate_pos=p2, mate_reverse=True, tags=tg)
                    r2 = bamgen.make_read(header, name, o['name'], p2, _seq(rng, l2), _qual(rng, l2), paired=True, read2=True,
                                          reverse=True, mate_contig=cn, mate_pos=pos, tags=tg)
                    reads += [r1, r2]
                    note(name, 1, 1, True, kind, cn)
                    note(name, 2, 2, False, kind, o['name'])
            elif kind == 'pos0':
                reads.append(bamgen.make_read(header, name, cn, 0, _seq(rng, l1, start='CATG'), _qual(rng, l1), tags=tg))
                note(name, 0, 0, True, kind, cn)
            elif kind == 'contig_end':
                reads.append(bamgen.make_read(header, name, cn, c['len'] - l1, _seq(rng, l1, end='CATG'), _qual(rng, l1), reverse=True,
                                              tags=tg))
                note(name, 0, 0, True, kind, cn)
            elif kind == 'minimal_tags':
                reads.append(bamgen.make_read(header, name, cn, pos, _seq(rng, l1, start='CATG'), _qual(rng, l1),
                                              tags={'SM': tg['SM'], 'RX': tg['RX']}))
                note(name, 0, 0, True, kind, cn)
            elif kind == 'cigar':
                # R1: soft clip + match; R2: one of insertion / deletion / skipped region / hard clip (query length = l2)
                c1 = '3S%dM' % (l1 - 3)
                a = l2 // 2
                c2 = rng.choice(['%dM2I%dM' % (a, l2 - a - 2), '%dM3D%dM' % (a, l2 - a), '%dM50N%dM' % (a, l2 - a), '4H%dM' % l2,
                                 '%dM2S' % (l2 - 2)])
                r1 = bamgen.make_read(header, name, cn, pos, _seq(rng, l1, start='CATG'), _qual(rng, l1), c1, paired=True, proper=True,
                                      read1=True, mate_contig=cn, mate_pos=pos + 40, mate_reverse=True, tlen=120, tags=tg)
                r2 = bamgen.make_read(header, name, cn, pos + 40, _seq(rng, l2), _qual(rng, l2), c2, paired=True, proper=True,
                                      read2=True, reverse=True, mate_contig=cn, mate_pos=pos, tlen=-120, tags=tg)
                reads += [r1, r2]
                note(name, 1, 1, True, kind, cn)
                note(name, 2, 2, True, kind, cn)
            elif kind == 'untagged':
                nm = 'plainread%d' % serial[0]
                r1 = bamgen.make_read(header, nm, cn, pos, _seq(rng, l1, start='CATG'), _qual(rng, l1), paired=True, proper=True,
                                      read1=True, mate_contig=cn, mate_pos=pos + 40, mate_reverse=True, tlen=40 + l2)
                r2 = bamgen.make_read(header, nm, cn, pos + 40, _seq(rng, l2), _qual(rng, l2), paired=True, proper=True,
                                      read2=True, reverse=True, mate_contig=cn, mate_pos=pos, tlen=-(40 + l2))
                reads += [r1, r2]
                note(nm, 1, 1, False, kind, cn)
                note(nm, 2, 2, False, kind, cn)
            elif kind in ('umi_bridge', 'multi_umi'):
                for suffix, u in ((('a', 'AAA'), ('b', 'ATT'), ('c', 'AAT')) if kind == 'umi_bridge' else
                                  (('a', 'AAA'), ('b', 'CCC'), ('c', 'GGG'))):
                    t3 = dict(tg, RX=u)
                    nm = name + suffix
                    r1 = bamgen.make_read(header, nm, cn, pos, _seq(rng, l1, start='CATG'), _qual(rng, l1), paired=True, proper=True,
                                          read1=True, mate_contig=cn, mate_pos=pos + 40, mate_reverse=True, tlen=40 + l2, tags=t3)
                    r2 = bamgen.make_read(header, nm, cn, pos + 40, _seq(rng, l2), _qual(rng, l2), paired=True, proper=True,
                                          read2=True, reverse=True, mate_contig=cn, mate_pos=pos, tlen=-(40 + l2), tags=t3)
                    reads += [r1, r2]
                    note(nm, 1, 1, True, kind, cn)
                    note(nm, 2, 2, True, kind, cn)
            elif kind == 'orphan_r2':
                reads.append(bamgen.make_read(header, name, cn, pos + 40, _seq(rng, l2), _qual(rng, l2), paired=True, proper=True,
                                              read2=True, reverse=True, mate_contig=cn, mate_pos=pos, tlen=-(40 + l2), tags=tg))
                note(name, 2, 0, False, kind, cn)
            elif kind == 'orphan_r1':
                reads.append(bamgen.make_read(header, name, cn, pos, _seq(rng, l1, start='CATG'), _qual(rng, l1), paired=True,
                                              proper=True, read1=True, mate_contig=cn, mate_pos=pos + 40, mate_reverse=True,
                                              tlen=40 + l2, tags=tg))
                note(name, 1, 0, True, kind, cn)
            elif kind == 'orphan_unmapped':
                reads.append(bamgen.make_read(header, name, cn, pos, _seq(rng, l2), _qual(rng, l2), paired=True, read2=True,
                                              unmapped=True, mate_contig=cn, mate_pos=pos, tags=tg))
                note(name, 2, 0, False, kind, cn)
            elif kind == 'sec_only':
                reads.append(bamgen.make_read(header, name, cn, pos, _seq(rng, l2), _qual(rng, l2), supplementary=True, tags=tg))
                note(name, 0, 0, False, 'supplementary_record', cn)
            elif kind == 'secondary':
                # a valid single read plus a secondary alignment of another read (outside the claim)
                reads.append(bamgen.make_read(header, name, cn, pos, _seq(rng, l1, start='CATG'), _qual(rng, l1), tags=tg))
                note(name, 0, 0, True, kind, cn)
                n2 = newname('sec')
                reads.append(bamgen.make_read(header, n2, cn, pos + 5, _seq(rng, l2), _qual(rng, l2), secondary=True, tags=tg))
                note(n2, 0, 0, False, 'secondary_record', cn)
            else:
                raise ValueError(kind)
    for kind in layout['star']:
        name = newname(kind)
        tg = tags('LIBA_%d' % rng.randint(1, 3), 'ACG')
        l1, l2 = rng.randint(20, 30), rng.randint(20, 30)
        if kind == 'unplaced_untagged':      # C20 only: an unplaced read the tagger cannot assign to a cell (no tags, plain name)
            nm = 'plainunplaced%d' % serial[0]
            reads.append(bamgen.make_read(header, nm, None, 0, _seq(rng, l1), _qual(rng, l1), unmapped=True))
            note(nm, 0, 0, False, kind, '*')
            continue
        if kind == 'unplaced_pair':
            reads.append(bamgen.make_read(header, name, None, 0, _seq(rng, l1), _qual(rng, l1), paired=True, read1=True,
                                          unmapped=True, mate_unmapped=True, tags=tg))
            reads.append(bamgen.make_read(header, name, None, 0, _seq(rng, l2), _qual(rng, l2), paired=True, read2=True,
                                          unmapped=True, mate_unmapped=True, tags=tg))
            note(name, 1, 1, False, kind, '*')
            note(name, 2, 2, False, kind, '*')
        else:
            reads.append(bamgen.make_read(header, name, None, 0, _seq(rng, l1), _qual(rng, l1), unmapped=True, tags=tg))
            note(name, 0, 0, False, kind, '*')
    return header, reads, truth


def write(path, layout, rng, method='nla'):
    header, reads, truth = build(layout, rng, method)
    bamgen.write_bam(path, header, reads)
    return truth


def describe(layout):
    """Compact abstract description for traces / replay files."""
    return {'contigs': [[c['name'], c['len'], c['kinds']] for c in layout['contigs']], 'star': layout['star']}


def undescribe(d):
    return {'contigs': [{'name': n, 'len': l, 'big': l >= THRESHOLD, 'kinds': list(k)} for n, l, k in d['contigs']], 'star': list(d['star'])}


def shape(layout):
    """Length-class shape of the contigs that have reads, e.g. 'ssB*' (used in finding keys)."""
    s = ''.join(('B' if c['len'] >= THRESHOLD else 's') for c in layout['contigs'] if c['kinds'])
    return s + ('*' if layout['star'] else '')
