"""C18 driver: generated VCFs x configurations x loading-mode histories through the real AlleleResolver.

usage: drive_alleles.py <out.ndjson> <tier> <seed> [<scenarios.json>]

The abstract VCF is generated first (contigs, samples, sites with REF/ALT and per-sample genotype indices); the VCF text
(bgzip + tabix through pysam) and the allele strings per sample are derived from it.  A *history* is a sequence of
resolver instances (runs) that share one cache directory (the cache directory is `<abspath of the vcf>_allele_cache`,
so every history works on its own symlink of the compressed VCF).  Each run has flags (lazyLoad, use_cache), a
configuration (select_samples, ignore_conversions, phased) and a list of lookups in some contig order.
One event per VCF:
  {ev:"vcf", tid, samples, contigs, absent, sites:[{c,p,ref,alts,gt:{sample:[allele|"."]}}],
   hists:[{runs:[{lazy, cache, phased, sel:{explicit,s}, ign:[[ref,alt]], raised,
                  ops:[{op:"get"|"has", c, p, b, ans}]}]}]}
`ans` is the raw return value: sorted list of sample names ([] for None) for getAllelesAt, bool for has_location.
No judgement here: TLC (Trace_Alleles) recomputes every expected answer from `sites`."""
import contextlib
import io
import json
import os
import random
import shutil
import sys

import pysam

BASES = 'ACGT'


def gen_vcf(rng, tier):
    nsamp = rng.choice([1, 2, 2, 3, 3, 4])
    # legal VCF sample names: with a space ('CAST EiJ'), dash, dot, plus, colon (no comma: the cache format joins with ',')
    samples = rng.choice([['SA', 'SB', 'S3', 'S-4'], ['SA', 'CAST EiJ', 'S.3+x', 'S-4'], ['129S1 SvImJ', 'SB', 'S:3', 'S 4']])[:nsamp]
    pool = ['chr1', 'chr2', 'chr3', 'chrUn_KI270742v1', 'ERCC-00002', 'KN12', '7_random', 'chr11', 'chr1_alt', 'chr1_alt']   # names containing each other
    contigs = ['chr1'] + sorted(set(rng.sample(pool[1:], rng.randint(0, 3))), key=pool.index)
    absent = ['chrAbsent'] + ([rng.choice([c for c in pool if c not in contigs])] if rng.random() < 0.5 else [])
    sites = []
    for c in contigs:
        n = rng.choice([0, 1, 2, 3, 5, 8])
        # 1-based VCF POS, unique per contig; POS 1 (0-based position 0) and the last base of the contig (1000) are frequent
        positions = sorted(rng.sample([1, 1, 1000, 1000] + list(range(2, 60)), n + 2))
        positions = sorted(set(positions))[:n] if n else []
        for pos in positions:
            ref = rng.choice(BASES) if rng.random() < 0.9 else rng.choice(BASES) + rng.choice(BASES)
            nalt = rng.choice([0, 1, 1, 1, 2, 2, 3])
            alts = []
            for _ in range(nalt):
                a = rng.choice(BASES) if rng.random() < 0.85 else rng.choice(BASES) + rng.choice(BASES)
                if rng.random() < 0.03:
                    a = rng.choice(['*', 'N'])          # single-character alleles that are not nucleotides
                if a != ref and a not in alts:
                    alts.append(a)
            gts = {}
            style = rng.choice(['random', 'random', 'hom_split', 'all_ref', 'one_missing', 'uncarried_alt', 'uncarried_alt',
                                'indel_last_sample', 'indel_last_sample', 'deletion_record'])
            if style == 'uncarried_alt':
                # multi-allelic record whose later ALTs nobody carries (a second SNV alt or an untrimmed multi-base alt)
                ref = rng.choice(BASES)
                others = [b for b in BASES if b != ref]
                rng.shuffle(others)
                alts = [others[0], others[1] if rng.random() < 0.6 else others[1] + rng.choice(BASES) + rng.choice(BASES)]
                if rng.random() < 0.3:
                    alts.append(others[2])
            elif style == 'deletion_record':
                # multi-base REF with a single-base ALT (a deletion): never a single-nucleotide site for REF carriers
                a = rng.choice(BASES)
                ref = a + rng.choice(BASES)
                alts = [a] if rng.random() < 0.7 else [a, rng.choice([b for b in BASES if b != a])]
            elif style == 'indel_last_sample':
                # SNV alt + multi-base alt; only the LAST sample (often not selected) carries the multi-base allele
                ref = rng.choice(BASES)
                others = [b for b in BASES if b != ref]
                rng.shuffle(others)
                alts = [others[0], ref + rng.choice(BASES) + rng.choice(BASES)]
            for k, s in enumerate(samples):
                ploidy = rng.choice([1, 2, 2, 2])
                sep = rng.choice(['/', '|'])
                idx = []
                for _ in range(ploidy):
                    if style == 'all_ref':
                        i = 0
                    elif style == 'hom_split':
                        i = (k % (len(alts) + 1))
                    elif style == 'uncarried_alt':
                        i = k % 2
                    elif style == 'deletion_record':
                        i = rng.choice([0, 1, 1, None]) if k else 1
                    elif style == 'indel_last_sample':
                        i = 2 if (k == len(samples) - 1 and len(samples) > 1) else k % 2
                    elif style == 'one_missing' and k == 0:
                        i = None
                    else:
                        i = rng.choice([None] + list(range(len(alts) + 1)) * 3)
                    idx.append(i)
                if style in ('hom_split', 'uncarried_alt', 'indel_last_sample') and ploidy == 2:
                    idx[1] = idx[0]
                gts[s] = {'idx': idx, 'sep': sep}
            sites.append({'c': c, 'pos1': pos, 'ref': ref, 'alts': alts, 'gts': gts})
    return {'samples': samples, 'contigs': contigs, 'absent': absent, 'sites': sites,
            'fmt': 'GT:DP' if rng.random() < 0.3 else 'GT', 'no_final_newline': rng.random() < 0.15 and bool(sites),
            'filter': rng.choice(['PASS', 'PASS', '.', 'q10'])}


def vcf_text(v):
    lines = ['##fileformat=VCFv4.2']
    for c in v['contigs']:
        lines.append('##contig=<ID=%s,length=1000>' % c)
    lines.append('##FORMAT=<ID=GT,Number=1,Type=String,Description="Genotype">')
    dp = v.get('fmt') == 'GT:DP'
    if dp:
        lines.append('##FORMAT=<ID=DP,Number=1,Type=Integer,Description="Depth">')
    lines.append('\t'.join(['#CHROM', 'POS', 'ID', 'REF', 'ALT', 'QUAL', 'FILTER', 'INFO', 'FORMAT'] + v['samples']))
    order = {c: i for i, c in enumerate(v['contigs'])}
    for s in sorted(v['sites'], key=lambda s: (order[s['c']], s['pos1'])):
        gt = [g['sep'].join('.' if i is None else str(i) for i in g['idx']) for g in (s['gts'][x] for x in v['samples'])]
        if dp:
            gt = [g + ':%d' % (7 + k) for k, g in enumerate(gt)]
        lines.append('\t'.join([s['c'], str(s['pos1']), '.', s['ref'], ','.join(s['alts']) or '.', '.',
                                v.get('filter', 'PASS'), '.', 'GT:DP' if dp else 'GT'] + gt))
    # a missing final newline is legal input
    return '\n'.join(lines) + ('' if v.get('no_final_newline') else '\n')


def abstract_sites(v):
    out = []
    for s in v['sites']:
        al = [s['ref']] + s['alts']
        out.append({'c': s['c'], 'p': s['pos1'] - 1, 'ref': s['ref'], 'alts': s['alts'],
                    'gt': {x: ['.' if i is None else al[i] for i in g['idx']] for x, g in s['gts'].items()}})
    return out


def gen_config(rng, v):
    r = rng.random()
    if r < 0.4 or len(v['samples']) == 0:
        sel = None
    elif r < 0.7 and len(v['samples']) > 1:
        # everybody but the last sample (the carrier of the multi-base allele in `indel_last_sample` sites)
        sel = list(v['samples'][:-1])
        if len(sel) > 1 and rng.random() < 0.3:
            sel = rng.sample(sel, len(sel) - 1)
    else:
        k = rng.randint(1, len(v['samples']))
        sel = rng.sample(v['samples'], k)
    r = rng.random()
    multi = [s for s in v['sites'] if len(s['alts']) >= 2 and len(s['ref']) == 1]
    if r < 0.35:
        ign = None
    elif r < 0.55:
        ign = [['C', 'T'], ['G', 'A']]
    elif r < 0.85 and multi:
        # a conversion to an ALT that is listed at some multi-allelic site (carried there or not)
        ign = []
        for s in rng.sample(multi, min(len(multi), rng.randint(1, 3))):
            a = rng.choice([x for x in s['alts'] if len(x) == 1] or [s['alts'][0]])
            if len(a) == 1 and [s['ref'], a] not in ign:
                ign.append([s['ref'], a])
        ign = ign or [['A', 'G']]
    else:
        ign = [[rng.choice(BASES), rng.choice(BASES)] for _ in range(rng.randint(1, 2))]
        ign = [x for x in ign if x[0] != x[1]] or [['A', 'G']]
    if rng.random() < 0.05:
        ign = []                 # an empty set of ignored conversions (falsy but valid)
    if rng.random() < 0.03:
        sel = []                 # an explicit empty selection: nobody is selected, every answer is "nothing"
    return {'sel': sel, 'ign': ign}


def gen_ops(rng, v, n):
    allc = v['contigs'] + v['absent']
    by_c = {c: [s['pos1'] - 1 for s in v['sites'] if s['c'] == c] for c in allc}
    pattern = rng.choice(['grouped', 'interleaved', 'return'])
    if pattern == 'grouped':
        seq = []
        for c in rng.sample(allc, len(allc)):
            seq += [c] * rng.randint(1, 4)
    elif pattern == 'return':
        a, b = rng.choice(allc), rng.choice(allc)
        seq = [a, a, b, a, rng.choice(allc), b, a]
    else:
        seq = [rng.choice(allc) for _ in range(n)]
    while len(seq) < n:
        seq.append(rng.choice(allc))
    ops = []
    for c in seq[:max(n, len(seq))]:
        ps = by_c[c]
        if ps and rng.random() < 0.8:
            p = rng.choice(ps) + rng.choice([0, 0, 0, 0, 1, -1])
        else:
            p = rng.randint(0, 60)
        p = max(0, p)
        r = rng.random()
        if r < 0.12:
            # getAllele(reads): a gap-free read of 3..12 bases starting at or before a site
            start = max(0, p - rng.randint(0, 3))
            seq = []
            for q in range(start, min(start + rng.randint(3, 12), 1000)):
                site = [s for s in v['sites'] if s['c'] == c and s['pos1'] - 1 == q]
                cand = [x for x in ([site[0]['ref']] + site[0]['alts'] if site else []) if len(x) == 1 and x in BASES]
                seq.append(rng.choice(cand) if cand and rng.random() < 0.85 else rng.choice(BASES))
            if rng.random() < 0.5:
                ops.append({'op': 'read', 'c': c, 'p': start, 'b': '-', 'seq': seq})
            elif c not in v['absent']:
                # the library's own consumer of the resolver: a molecule over the sites gets its allele tags (DA / ap) written;
                # afterwards the same positions are looked up again - the resolver's answers must be unchanged
                ops.append({'op': 'mol', 'c': c, 'p': start, 'b': '-', 'seq': seq})
                for k, b in enumerate(seq):
                    if any(s['c'] == c and s['pos1'] - 1 == start + k for s in v['sites']):
                        ops.append({'op': 'get', 'c': c, 'p': start + k, 'b': b})
                        ops.append({'op': 'has', 'c': c, 'p': start + k, 'b': '-'})
        elif r < 0.32:
            ops.append({'op': 'has', 'c': c, 'p': p, 'b': '-'})
        else:
            site = [s for s in v['sites'] if s['c'] == c and s['pos1'] - 1 == p]
            cand = [x for x in ([site[0]['ref']] + site[0]['alts'] if site else []) if len(x) == 1 and x in BASES]
            b = rng.choice(cand) if cand and rng.random() < 0.8 else rng.choice(BASES)
            ops.append({'op': 'get', 'c': c, 'p': p, 'b': b})
            if rng.random() < 0.3:      # ask the other bases of the same position as well
                for b2 in BASES:
                    if b2 != b:
                        ops.append({'op': 'get', 'c': c, 'p': p, 'b': b2})
    return ops


MODES = [(False, False), (True, False), (False, True), (True, True)]


def gen_history(rng, v, kind):
    base = gen_config(rng, v)
    nruns = rng.choice([2, 3, 3, 4])
    runs = []
    if kind in ('modes', 'unphased'):         # every flag combination once, same configuration
        order = rng.sample(MODES, 4)
        flags = order[:nruns] if nruns < 4 else order
    else:
        flags = [rng.choice(MODES) for _ in range(nruns)]
        flags[0] = rng.choice([(False, True), (True, True)])     # make sure somebody writes the cache first
    for (lazy, cache) in flags:
        cfg = dict(base)
        phased = kind != 'unphased'
        if kind == 'xcfg' and rng.random() < 0.6:
            other = gen_config(rng, v)
            which = rng.choice(['ign', 'ign', 'sel', 'unphased'])
            if which == 'ign':
                cfg['ign'] = other['ign'] if other['ign'] != base['ign'] else (None if base['ign'] else [['C', 'T'], ['G', 'A']])
            elif which == 'sel':
                cfg['sel'] = other['sel']
            else:
                phased = False
        runs.append({'lazy': lazy, 'cache': cache, 'phased': phased, 'sel': cfg['sel'], 'ign': cfg['ign'],
                     'verbose': rng.random() < 0.25, 'bytes_path': rng.random() < 0.15,
                     'ops': gen_ops(rng, v, rng.randint(6, 22))})
    return runs


def make_read(contigs, c, start, seq):
    h = pysam.AlignmentHeader.from_dict({'HD': {'VN': '1.6'}, 'SQ': [{'SN': x, 'LN': 1000} for x in contigs]})
    a = pysam.AlignedSegment(h)
    a.query_name = 'r'
    a.query_sequence = ''.join(seq)
    a.flag = 0
    a.reference_id = h.get_tid(c)
    a.reference_start = start
    a.mapping_quality = 60
    a.cigarstring = '%dM' % len(seq)
    a.query_qualities = pysam.qualitystring_to_array('I' * len(seq))
    return a


def execute_run(AlleleResolver, vcf_path, run, contigs=None):
    kw = {'lazyLoad': run['lazy'], 'use_cache': run['cache'], 'phased': run['phased']}
    if run.get('verbose'):
        kw['verbose'] = True             # only adds progress messages (stdout is discarded)
    if run.get('bytes_path'):
        vcf_path = vcf_path.encode('ascii')   # the constructor also accepts the path as bytes (clean_vcf_name)
    if run['sel'] is not None:
        kw['select_samples'] = list(run['sel'])
    if run['ign'] is not None:
        kw['ignore_conversions'] = set((a, b) for a, b in run['ign'])
    out = {'lazy': run['lazy'], 'cache': run['cache'], 'phased': run['phased'],
           'sel': {'explicit': run['sel'] is not None, 's': sorted(run['sel'] or [])},
           'ign': [list(x) for x in (run['ign'] or [])], 'raised': 'none', 'ops': []}
    sink = io.StringIO()
    with contextlib.redirect_stdout(sink):
        try:
            ar = AlleleResolver(vcf_path, **kw)
        except Exception as ex:
            out['raised'] = type(ex).__name__
            return out
        for o in run['ops']:
            rec = dict(o)
            try:
                if o['op'] == 'mol':
                    from singlecellmultiomics.molecule import MoleculeIterator
                    rd = make_read(contigs, o['c'], o['p'], o['seq'])
                    rd.set_tag('SM', 'CELL_1')
                    rd.set_tag('RX', 'CAT')
                    tags = []
                    for m in MoleculeIterator([rd], yield_invalid=True, molecule_class_args={'allele_resolver': ar}):
                        m.write_tags()
                        if hasattr(m, 'get_allele_likelihoods'):
                            try:
                                m.get_allele_likelihoods()
                            except Exception:
                                pass
                        tags.append(str(rd.get_tag('DA')) if rd.has_tag('DA') else '')
                    rec['ans'] = tags          # recorded, not judged: the DA rule belongs to the consensus machinery
                elif o['op'] == 'read':
                    rd = make_read(contigs, o['c'], o['p'], o['seq'])
                    un = make_read(contigs, o['c'], o['p'], o['seq'])
                    un.is_unmapped = True        # getAllele skips missing mates and unmapped reads
                    rec['ans'] = sorted(ar.getAllele([None, un, rd] if o['p'] % 2 else [rd]))
                elif o['op'] == 'get':
                    a = ar.getAllelesAt(o['c'], o['p'], o['b'])
                    rec['ans'] = sorted(a) if a is not None else []
                else:
                    rec['ans'] = bool(ar.has_location(o['c'], o['p']))
                rec['raised'] = 'none'
            except Exception as ex:
                rec['ans'] = [] if o['op'] in ('get', 'read', 'mol') else False
                rec['raised'] = type(ex).__name__
            out['ops'].append(rec)
    return out


def from_scenario(scn):
    """A history generated by TLC from Alleles.tla (Record = TRUE) -> (abstract VCF, runs with the design's answers)."""
    contigs = sorted(scn['vcf'])
    samples, sites = None, []
    for c in contigs:
        col = scn['vcf'][c]
        items = col.items() if isinstance(col, dict) else enumerate(col, 1)
        for p, site in items:
            if site['ref'] == '-':
                continue
            samples = sorted(site['gt'])
            al = [site['ref']] + list(site['alts'])
            sites.append({'c': c, 'pos1': int(p) + 1, 'ref': site['ref'], 'alts': list(site['alts']),
                          'gts': {x: {'idx': [None if a == '.' else al.index(a) for a in g], 'sep': '/'}
                                  for x, g in site['gt'].items()}})
    v = {'samples': samples or ['s1', 's2'], 'contigs': contigs, 'absent': ['cx'], 'sites': sites}
    runs = []
    for h in scn['hist']:
        if h['ev'] == 'start':
            sel = h['cfg']['sel']
            runs.append({'lazy': h['lazy'], 'cache': h['cache'], 'phased': bool(h['cfg'].get('ph', True)),
                         'sel': sorted(sel['s']) if sel['explicit'] else None,
                         'ign': [list(x) for x in h['cfg']['ign']] or None, 'ops': []})
        else:
            runs[-1]['ops'].append({'op': h['op'], 'c': h['c'], 'p': h['p'], 'b': h['b'],
                                    'exp': sorted(h['ans']) if h['op'] == 'get' else h['has']})
    return v, runs


def main():
    out, tier, seed = sys.argv[1], sys.argv[2], int(sys.argv[3])
    scns = json.load(open(sys.argv[4])) if len(sys.argv) > 4 else []
    rng = random.Random(seed)
    from singlecellmultiomics.alleleTools import AlleleResolver
    nv, nh = (120, 6) if tier == 'quick' else (1500, 10)
    work = os.path.join(os.getcwd(), 'c18_work_%d' % os.getpid())
    tid = 0
    with open(out, 'w') as f:
        for k in range(nv):
            if os.path.isdir(work):
                shutil.rmtree(work)
            os.makedirs(work)
            v = gen_vcf(rng, tier)
            plain = os.path.join(work, 'v.vcf')
            with open(plain, 'w') as g:
                g.write(vcf_text(v))
            gz = plain + '.gz'
            pysam.tabix_compress(plain, gz, force=True)
            pysam.tabix_index(gz, preset='vcf', force=True)
            hists = []
            for h in range(nh):
                kind = ['modes', 'random', 'xcfg', 'unphased', 'modes', 'xcfg'][h % 6]
                hd = os.path.join(work, 'h%d' % h)
                os.makedirs(hd)
                link = os.path.join(hd, 'v.vcf.gz')
                os.symlink(gz, link)
                os.symlink(gz + '.tbi', link + '.tbi')
                if rng.random() < 0.25:
                    # left-overs of an interrupted earlier run in the cache directory: a garbage temp file, or something
                    # un-writable (a directory) at the temp path, so that writing the cache fails (swallowed by the code)
                    cd = link + '_allele_cache'
                    os.makedirs(cd)
                    for c in v['contigs'][:2]:
                        t = os.path.join(cd, c + '.tsv.gz.unfinished')
                        if rng.random() < 0.5:
                            with open(t, 'wb') as g:
                                g.write(b'garbage of an interrupted run')
                        else:
                            os.makedirs(t)
                runs = [execute_run(AlleleResolver, link, r, v['contigs'] + v['absent']) for r in gen_history(rng, v, kind)]
                hists.append({'kind': kind, 'runs': runs})
            tid += 1
            f.write(json.dumps({'ev': 'vcf', 'tid': tid, 'samples': v['samples'], 'contigs': v['contigs'],
                                'absent': v['absent'], 'sites': abstract_sites(v), 'hists': hists},
                               separators=(',', ':')) + '\n')
        # spec -> code: histories generated by TLC from the design model, replayed against the real resolver
        for scn in scns:
            if os.path.isdir(work):
                shutil.rmtree(work)
            os.makedirs(work)
            v, runs = from_scenario(scn)
            plain = os.path.join(work, 'v.vcf')
            with open(plain, 'w') as g:
                g.write(vcf_text(v))
            gz = plain + '.gz'
            pysam.tabix_compress(plain, gz, force=True)
            pysam.tabix_index(gz, preset='vcf', force=True)
            tid += 1
            f.write(json.dumps({'ev': 'vcf', 'tid': tid, 'samples': v['samples'], 'contigs': v['contigs'],
                                'absent': v['absent'], 'sites': abstract_sites(v),
                                'hists': [{'kind': 'tlc', 'runs': [execute_run(AlleleResolver, gz, r, v['contigs'] + v['absent']) for r in runs]}]},
                               separators=(',', ':')) + '\n')
    if os.path.isdir(work):
        shutil.rmtree(work)


if __name__ == '__main__':
    main()
