"""C01 driver: runs the real demultiplexer loader loop on generated FASTQ libraries and records what ended up in
the sinks (re-read from disk) together with the returned / logged counters.

usage: drive_demux.py <out.ndjson> <tier> <seed> [scenarios.json]
       drive_demux.py <out.ndjson> replay <case.json>          (re-run one recorded case: same library, same configuration)

Only drives and records. No judgement in here: Trace_Demux.tla (TLC) decides.
The library is described abstractly first (pair classes), the FASTQ bytes are derived from that description.
"""
import contextlib
import gzip
import importlib.resources as resources
import io
import json
import os
import random
import re
import runpy
import shutil
import sys
import tempfile

TOKEN0 = 1000000                      # pair i (1-based) carries the token 1000000+i in its header
RE_TOKEN = re.compile(r'(?<![0-9])1([0-9]{6})(?![0-9])')
BASES = 'ACGT'


# ------------------------------------------------------------------------------------------------
# the code under test, loaded once per process exactly like demux.py does (lines 260-304)

class Loader:
    def __init__(self, hd=0, si=None):
        import singlecellmultiomics.barcodeFileParser.barcodeFileParser as bfp
        from singlecellmultiomics.modularDemultiplexer.demultiplexingStrategyLoader import DemultiplexingStrategyLoader
        bdir = str(resources.files('singlecellmultiomics') / 'modularDemultiplexer/barcodes/')
        idir = str(resources.files('singlecellmultiomics') / 'modularDemultiplexer/indices/')
        with contextlib.redirect_stdout(io.StringIO()):
            self.bp = bfp.BarcodeParser(hammingDistanceExpansion=hd, barcodeDirectory=bdir, lazyLoad=("10x_3M-february-2018",))
            alias = 'illumina_merged_ThruPlex48S_RP'
            if si:          # demux.py -si A,B (lines 270-287): only these sequencing indices, alias 'user'
                self.ip = bfp.BarcodeParser()
                alias = 'user'
                for index, seq in enumerate(si.split(',')):
                    self.ip.addBarcode(index=str(index), barcodeFileAlias='user', barcode=seq, hammingDistance=0, originBarcode=None)
                self.ip.expand(1, alias='user')
            else:
                self.ip = bfp.BarcodeParser(hammingDistanceExpansion=1, barcodeDirectory=idir)
            self.dmx = DemultiplexingStrategyLoader(barcodeParser=self.bp, indexParser=self.ip, only_detect_methods=None,
                                                    indexFileAlias=alias)
        self.names = [s.shortName for s in self.dmx.demultiplexingStrategies]
        self.hd = hd
        self.si = si or ''

    def select(self, names):
        """the strategy objects NAMED (exact shortName, loader order) - driver side, independent of the code under test"""
        want = set(names)
        return [s for s in self.dmx.demultiplexingStrategies if s.shortName in want]

    def select_by_string_list(self, names):
        """what the code under test selects for the same list of names (demux.py -use a,b -> getSelectedStrategiesFromStringList)"""
        with contextlib.redirect_stdout(io.StringIO()):
            return self.dmx.getSelectedStrategiesFromStringList(list(names), verbose=False)


# ------------------------------------------------------------------------------------------------
# generator: abstract pair description -> records

def own_layout(s):
    if getattr(s, 'barcodeFileAlias', None) is None:
        return None
    if getattr(s, 'barcode_slices', None) is not None:
        pos, upos = [], []
        for sl in s.barcode_slices[0]:
            pos += list(range(sl.start, sl.stop))
        for sl in s.umi_slices[0]:
            upos += list(range(sl.start, sl.stop))
        return {'read': 0, 'bc': pos, 'umi': upos, 'alias': s.barcodeFileAlias}
    if hasattr(s, 'barcodeStart') and hasattr(s, 'barcodeRead'):
        return {'read': s.barcodeRead, 'bc': list(range(s.barcodeStart, s.barcodeStart + s.barcodeLength)),
                'umi': list(range(s.umiStart, s.umiStart + s.umiLength)) if s.umiLength else [], 'alias': s.barcodeFileAlias}
    return None


def layout_of(strategy, rng, loader):
    """Where barcode and UMI live, read from the strategy object's own attributes or those of the demultiplexers it
    delegates to (generator knowledge only: it makes acceptance likely, it is never used to judge)."""
    cands = [own_layout(strategy)] + [own_layout(v) for k, v in sorted(vars(strategy).items()) if hasattr(v, 'demultiplex')]
    cands = [c for c in cands if c is not None]
    def stocked(c):
        try:
            return bool(loader.bp[c['alias']])
        except Exception:
            return False
    good = [c for c in cands if stocked(c)]
    lay = dict(rng.choice(good or cands)) if cands else None
    if lay is not None and type(strategy).__name__.endswith('_pdt'):
        lay['motif'] = 'AGACTCTTT'          # the template switching oligo this strategy looks for in mate 1
    return lay


HEADER_CLASSES = ['ill11', 'ill11', 'ill11', 'ill11num', 'ill11unk', 'ill10', 'ill7', 'scmo', 'scmo2', 'scmorr', 'dec3',
                  'garbage', 'sra']


def header(cls, tok, mate):
    m = mate + 1
    if cls == 'ill11':
        return '@NS500414:628:H7YVNBGXC:1:11101:%d:1046 %d:N:0:GTGAAA' % (tok, m)
    if cls == 'ill11num':
        return '@NS500414:628:H7YVNBGXC:2:21101:%d:2046 %d:N:0:3' % (tok, m)
    if cls == 'ill11unk':       # sequencing index not in the index file
        return '@NS500414:628:H7YVNBGXC:1:11101:%d:1046 %d:N:0:GGGGGGGG' % (tok, m)
    if cls == 'ill10':          # no index field
        return '@NS500414:628:H7YVNBGXC:1:11101:%d:1046 %d:N:0' % (tok, m)
    if cls == 'ill7':           # short header
        return '@NS500414:628:H7YVNBGXC:1:11101:%d:1046' % tok
    if cls == 'scmo':           # already demultiplexed (bulk)
        return '@Is:NS500414;RN:628;Fc:H7YVNBGXC;La:1;Ti:11101;CX:%d;CY:1046;Fi:N;CN:0;aa:GTGAAA;aA:GTGAAA;aI:2;LY:old' % tok
    if cls == 'scmo2':          # already demultiplexed by a strategy
        return ('@Is:NS500414;RN:628;Fc:H7YVNBGXC;La:1;Ti:11101;CX:%d;CY:1046;Fi:N;CN:0;aa:GTGAAA;aA:GTGAAA;aI:2;LY:old;'
                'RX:ACG;RQ:KKK;bi:7;bc:ACACACTA;MX:OLDMX;BC:ACACACTA') % tok
    if cls == 'scmorr':         # a record of a rejects file fed back in
        return ('@Is:NS500414;RN:628;Fc:H7YVNBGXC;La:1;Ti:11101;CX:%d;CY:1046;Fi:N;CN:0;aa:GTGAAA;aA:GTGAAA;aI:2;LY:old;'
                'RR:bc:GGGGGGGG_not_matching_celseq2') % tok
    if cls == 'dec3':
        return '@Cluster_s_1_%d_2' % tok
    if cls == 'garbage':
        return '@read%d' % tok
    if cls == 'sra':
        return '@SRR1234.%d %d/%d' % (tok, tok, m)
    raise ValueError(cls)


def rand_seq(rng, n, alphabet=BASES):
    return ''.join(rng.choice(alphabet) for _ in range(n))


def rand_qual(rng, n):
    return ''.join(chr(33 + rng.randint(20, 41)) for _ in range(n))


MOTIFS = ['AGACTCTTT', 'T' * 25, 'AGTCCGACGAT', 'A' * 12, 'G' * 12, 'CATG', 'TAATACGACTCACTATAGGG']

CONTENT_CLASSES = ['exact', 'exact', 'exact', 'exact', 'mm1', 'unknown', 'truncated', 'shortprefix', 'empty', 'emptyboth',
                   'n_umi', 'n_bc', 'n_ins', 'motif', 'phred']


def make_pair(rng, loader, lay, content, hdrcls, pid, mates, phred=None):
    """-> {'id', 'hdr', 'content', 'm': [{'h','seq','plus','qual'} per mate]}"""
    lens = [rng.randint(30, 70), rng.randint(20, 70)]
    seqs = [rand_seq(rng, lens[0]), rand_seq(rng, lens[1])]
    wl = None
    if lay is not None:
        try:
            wl = loader.bp[lay['alias']]
        except Exception:
            wl = None
    where = None
    if lay is not None:
        r = lay['read'] if lay['read'] < 2 else 0
        s = list(seqs[r])
        need = max(lay['bc'] + lay['umi'] + [0]) + 1
        while len(s) < need + 10:
            s.append(rng.choice(BASES))
        bc = None
        if wl:
            keys = sorted(wl.keys())
            cand = [k for k in keys if len(k) == len(lay['bc'])] or keys
            bc = rng.choice(cand)
        if content in ('unknown',) or bc is None:
            bc = rand_seq(rng, len(lay['bc']))
            for _ in range(20):
                if not wl or bc not in wl:
                    break
                bc = rand_seq(rng, len(lay['bc']))
        elif content == 'mm1' and len(bc):
            i = rng.randrange(len(bc))
            bc = bc[:i] + rng.choice([b for b in BASES if b != bc[i]]) + bc[i + 1:]
        elif content == 'n_bc' and len(bc):
            i = rng.randrange(len(bc))
            bc = bc[:i] + 'N' + bc[i + 1:]
        for k, p in enumerate(lay['bc']):
            if k < len(bc):
                s[p] = bc[k]
        if content == 'n_umi' and lay['umi']:
            s[rng.choice(lay['umi'])] = 'N'
        if content == 'n_ins':
            for _ in range(3):
                s[rng.randrange(need, len(s))] = 'N'
        seqs[r] = ''.join(s)
        if content == 'motif':
            mo = rng.choice(MOTIFS)
            t = rng.randrange(2)
            if lay.get('motif') and rng.random() < 0.8:
                mo, t = lay['motif'], 0
            at = rng.randint(need if t == r else 0, max(need if t == r else 0, len(seqs[t]) - 1))
            seqs[t] = seqs[t][:at] + mo + seqs[t][at:]
        if content == 'truncated':
            seqs[r] = seqs[r][:rng.randint(min(lay['bc']) + 1, max(lay['bc']))] if len(lay['bc']) > 1 else seqs[r][:1]
        if content == 'shortprefix':
            seqs[r] = seqs[r][:rng.randint(1, max(1, min(lay['bc'] + lay['umi'] + [1])))]
        where = {'umi': lay['umi'], 'bc': lay['bc'], 'lig': [need, need + 1], 'ins': [need + 5]}
    if content == 'empty':
        seqs[rng.randrange(2)] = ''
    if content == 'emptyboth':
        seqs = ['', '']
    quals = [rand_qual(rng, len(x)) for x in seqs]
    if content == 'phred' and phred is not None:
        q, region = phred
        r = lay['read'] if lay is not None and lay['read'] < 2 else 0
        positions = (where or {}).get(region) or [0]
        if region == 'r2':
            r, positions = 1, [rng.randrange(max(1, len(seqs[1])))]
        p = rng.choice(positions)
        if p < len(quals[r]):
            quals[r] = quals[r][:p] + chr(33 + q) + quals[r][p + 1:]
    tok = TOKEN0 + pid
    return {'id': pid, 'hdr': hdrcls, 'content': content if content != 'phred' else 'phred%s' % (phred,),
            'm': [{'h': header(hdrcls, tok, k), 'seq': seqs[k], 'plus': '+', 'qual': quals[k]} for k in range(mates)]}


def make_library(rng, loader, strategies, n, mates, focus=None, phreds=(), hdr_classes=None, content_classes=None):
    lays = [layout_of(s, rng, loader) for s in strategies]
    pairs = []
    phreds = list(phreds)
    for pid in range(1, n + 1):
        lay = lays[focus] if focus is not None else rng.choice(lays)
        content = rng.choice(content_classes or CONTENT_CLASSES)
        if lay is not None and lay.get('motif') and rng.random() < 0.3:
            content = 'motif'
        ph = None
        if phreds:
            content, ph = 'phred', phreds.pop()
        elif content == 'phred':
            ph = (rng.choice([0, 1, 41, 50, 51, 52, 53, 60, 92, 93]), rng.choice(['umi', 'bc', 'lig', 'ins', 'r2']))
        hdrcls = rng.choice(hdr_classes or HEADER_CLASSES)
        if content == 'phred' and rng.random() < 0.8:
            hdrcls = 'ill11'
        pr = make_pair(rng, loader, lay, content, hdrcls, pid, mates, ph)
        u = rng.random()
        if ph is None and pairs and u < 0.07:            # the same bases and qualities as the previous pair, another read name
            for r, r0 in zip(pr['m'], pairs[-1]['m']):
                r.update(seq=r0['seq'], qual=r0['qual'])
            pr['content'] = 'dup_of_previous'
        elif ph is None and u < 0.12:                    # soft-masked / lower-case bases
            for r in pr['m']:
                r['seq'] = r['seq'].lower()
            pr['content'] += '+lower'
        if rng.random() < 0.1:                           # '+<read name>' separator lines
            for r in pr['m']:
                r['plus'] = '+' + r['h'][1:]
        pairs.append(pr)
    return pairs


# ------------------------------------------------------------------------------------------------
# observation

def fastq_bytes(pairs, k, cfg):
    """the bytes of mate file k: line terminator LF or CRLF, last record terminated by a newline or by EOF"""
    eol = '\r\n' if cfg.get('eol') == 'crlf' else '\n'
    text = ''.join(eol.join((pr['m'][k]['h'], pr['m'][k]['seq'], pr['m'][k]['plus'], pr['m'][k]['qual'])) + eol for pr in pairs)
    if cfg.get('nofinalnl') and text:
        text = text[:-len(eol)]
    elif cfg.get('trailing_blank'):
        text += eol                                     # an empty line after the last record
    return text.encode()


def write_inputs(d, lib, pairs, mates, gz=True, cfg=None):
    files = []
    per_mate = (cfg or {}).get('gz_mates') or []      # mate files of one pair may be stored differently (gz / plain)
    for k in range(mates):
        z = per_mate[k] if k < len(per_mate) else gz
        p = os.path.join(d, '%s_R%d.fastq%s' % (lib, k + 1, '.gz' if z else ''))
        with (gzip.open(p, 'wb') if z else open(p, 'wb')) as f:
            f.write(fastq_bytes(pairs, k, cfg or {}))
        files.append(p)
    return files


RE_LY = re.compile(r'LY:[^;]*')


def id_of(hdr):
    # the library name (LY tag, also quoted inside error texts of raw rejects) is not part of the read name
    ids = set(int(x) for x in RE_TOKEN.findall(RE_LY.sub('LY:', hdr)))
    return ids.pop() if len(ids) == 1 else 0


def lex_tags(hdr):
    """lexical projection of a header: '@a:b;c:d:e;f' -> [['a','b'],['c','d:e'],['f','']] (the '@' is dropped)"""
    out = []
    for part in hdr[1:].split(';'):
        k, _, v = part.partition(':')
        out.append([k, v])
    return out


def read_stream(path, with_content):
    if not os.path.exists(path):
        return {'nlines': -1, 'recs': []}
    with gzip.open(path, 'rt') as f:
        text = f.read()
    lines = text.split('\n')
    if lines and lines[-1] == '':
        lines.pop()
    recs = []
    for i in range(0, len(lines), 4):
        g = lines[i:i + 4] + [''] * 4
        h, s, _, q = g[:4]
        tags = lex_tags(h)
        rec = {'id': id_of(h), 'mx': dict((k, v) for k, v in tags).get('MX', ''), 'c0': h[:1], 'sl': len(s), 'ql': len(q)}
        if with_content:
            rec.update(seq=s, qual=q, tags=tags)
        recs.append(rec)
    return {'nlines': len(lines), 'recs': recs}


def read_sinks(d, prefix, mates, with_content, percell=False):
    """the joint sink <prefix>R1/R2.fastq.gz, or every per-cell sink <prefix>.<cell>.R1/R2.fastq.gz found on disk"""
    base = os.path.basename(prefix)
    if not percell:
        return [{'sink': base, 'mates': [read_stream('%sR%d.fastq.gz' % (prefix, k + 1), with_content) for k in range(mates)]}]
    cells = set()
    for fn in os.listdir(os.path.dirname(prefix)):
        m = re.match(re.escape(base) + r'\.(.*)\.R[12]\.fastq\.gz$', fn)
        if m:
            cells.add(m.group(1))
    return [{'sink': c, 'mates': [read_stream('%s.%s.R%d.fastq.gz' % (prefix, c, k + 1), with_content) for k in range(mates)]}
            for c in sorted(cells)]


def parse_log(path, names):
    """lexical projection of demultiplexing.log: 'processed N read pairs' lines and the '<strategy>\\t<count>' rows that follow a
    'Strategy\\tReads' header; rows of strategies that were not named are summed separately"""
    processed, ylds, logged, foreign = -1, [0] * len(names), False, 0
    if not os.path.exists(path):
        return logged, processed, ylds, foreign
    in_table = False
    with open(path) as f:
        for line in f:
            m = re.match(r'processed (\d+) read pairs', line)
            if m:           # one line per lane (call of demultiplex): the library total is their sum
                processed, logged = (processed if logged else 0) + int(m.group(1)), True
            parts = line.rstrip('\n').split('\t')
            if parts == ['Strategy', 'Reads']:
                in_table = True
                continue
            if in_table and len(parts) == 2 and parts[1].isdigit():
                if parts[0] in names:
                    ylds[names.index(parts[0])] += int(parts[1])
                else:
                    foreign += int(parts[1])
            else:
                in_table = False
    return logged, processed, ylds, foreign


def oracle(strategies, pairs, lib):
    """what each strategy object itself decides for each pair, called directly on identical records"""
    from singlecellmultiomics.fastqProcessing.fastqIterator import FastqRecord
    from singlecellmultiomics.modularDemultiplexer.baseDemultiplexMethods import NonMultiplexable
    acc = []
    for pr in pairs:
        reads = tuple(FastqRecord(r['h'], r['seq'], r['plus'], r['qual']) for r in pr['m'])
        row = []
        for s in strategies:
            try:
                recs = s.demultiplex(reads, library=lib, probe=None)
                if len([str(r) for r in recs]) != len(reads):
                    raise ValueError('record count')
                row.append('A')
            except NonMultiplexable:
                row.append('N')
            except Exception:
                row.append('E')
        acc.append(row)
    return acc


def relabel(pairs, offset, times=1):
    """the same records under other ids (tokens offset+1 ..), optionally repeated: a *different* library that touches
    exactly the same cells"""
    out = []
    for t in range(times):
        for p in pairs:
            pid = offset + len(out) + 1
            out.append(dict(p, id=pid, m=[dict(r, h=header(p['hdr'], TOKEN0 + pid, k)) for k, r in enumerate(p['m'])]))
    return out


def split_lanes(pairs, cfg):
    """lanes of one library: 'lane_splits' = ascending cut positions (k positions -> k+1 lanes, empty lanes allowed)"""
    if cfg.get('lane_splits'):
        cuts = [0] + [max(0, min(len(pairs), c)) for c in cfg['lane_splits']] + [len(pairs)]
        return [pairs[cuts[i]:cuts[i + 1]] for i in range(len(cuts) - 1)]
    if cfg.get('lanes', 1) < 2:
        return [pairs]
    at = max(0, min(len(pairs), cfg.get('lane_split', len(pairs) // 2)))
    return [pairs[:at], pairs[at:]]


def consumed(pairs, cfg):
    return pairs if not cfg['maxpairs'] else pairs[:cfg['maxpairs']]


def prior_passes(pairs, cfg):
    """history before the run under test: [(pairs, maxpairs)] demultiplexed earlier into the SAME output prefix.
    Both histories only touch cells that the run under test writes again (a per-cell file of a cell that the later run never
    sees is left alone by the code and is not part of this property)."""
    if cfg.get('prior') == 'testrun':       # demux.py -n k to have a look, then the real run
        return [(pairs, cfg['prior_k'])]
    if cfg.get('prior') == 'other':         # another, longer library with the same cells
        return [(relabel(consumed(pairs, cfg), len(pairs), times=2), 0)]
    return []


def api_pass(loader, strategies, pairs, cfg, maxpairs, d, target_dir, tag):
    """demux.py lines 455-503: one complete demultiplexing operation (all lanes of one library) into target_dir"""
    from singlecellmultiomics.fastqProcessing.fastqHandle import FastqHandle
    import collections
    lib = cfg['lib']
    lanes = []
    for i, part in enumerate(split_lanes(pairs, cfg)):
        ld = os.path.join(d, '%s_lane%d' % (tag, i))
        os.makedirs(ld)
        lanes.append(write_inputs(ld, lib, part, cfg['mates'], gz=cfg.get('gz', True), cfg=cfg))
    if not os.path.exists(target_dir):
        os.makedirs(target_dir)
    paired_end = cfg['mates'] == 2
    handle = FastqHandle(f'{target_dir}/demultiplexed', paired_end, single_cell=cfg['percell'], maxHandles=cfg.get('fh', 500))
    reject_handle = FastqHandle(f'{target_dir}/rejects', paired_end) if cfg['hasRej'] else None
    if cfg['percell'] and cfg.get('prune'):
        # tuning parameter of the real HandleLimiter (default: prune check every 10000 writes) lowered so that small
        # libraries reach the close-least-recently-written / reopen-in-append-mode path
        handle.handles.pruneEvery = cfg['prune']
    log_location = os.path.abspath(f'{target_dir}/demultiplexing.log')
    log_handle = open(log_location, 'w')
    log_handle.write('driver\n')
    real_log = log_handle
    if cfg.get('nolog'):
        log_handle = None               # API use without a log handle
    raised, total, ylds = '', 0, collections.Counter()
    old_limit = None
    if cfg['percell'] and cfg.get('nofile'):
        # a real RLIMIT_NOFILE just above what is open now: the input files of one lane + cfg['nofile'] cell files
        import resource
        old_limit = resource.getrlimit(resource.RLIMIT_NOFILE)
        resource.setrlimit(resource.RLIMIT_NOFILE, (len(os.listdir('/proc/self/fd')) + cfg['mates'] + cfg['nofile'], old_limit[1]))
    try:
        with contextlib.redirect_stdout(io.StringIO()):
            for files in lanes:
                if maxpairs and total >= maxpairs:
                    break
                processed, y = loader.dmx.demultiplex(files, strategies=strategies, targetFile=handle,
                                                      rejectHandle=reject_handle, log_handle=log_handle, library=lib,
                                                      maxReadPairs=None if not maxpairs else (maxpairs - total))
                total += processed
                ylds.update(y)
                if maxpairs and total >= maxpairs:
                    break
    except Exception as ex:  # a crash of the code under test is an observation
        raised, total = type(ex).__name__, -1
    finally:
        if old_limit is not None:
            import resource
            resource.setrlimit(resource.RLIMIT_NOFILE, old_limit)
    for h in (handle, reject_handle):
        if h is not None:
            try:
                h.close()
            except Exception as ex:
                raised = raised or 'close:' + type(ex).__name__
    real_log.close()
    return raised, total, ylds


def run_api(loader, strategies, names, pairs, cfg, workdir):
    """the run under test (after its history, if any) through the loader of this process; sinks re-read afterwards"""
    lib = cfg['lib']
    d = tempfile.mkdtemp(prefix='run_', dir=workdir)
    target_dir = os.path.join(d, 'out', lib)
    prior_raised = ''
    for i, (ppairs, pmax) in enumerate(prior_passes(pairs, cfg)):
        r, _, _ = api_pass(loader, strategies, ppairs, cfg, pmax, d, target_dir, 'prior%d' % i)
        prior_raised = prior_raised or r
    if cfg.get('stale_dir') and not os.path.exists(target_dir):
        os.makedirs(target_dir)           # output directory exists already (demux.py 433)
    raised, processed, ylds = api_pass(loader, strategies, pairs, cfg, cfg['maxpairs'], d, target_dir, 'main')
    obs = observe(target_dir, cfg, names)
    obs.update(raised=raised, processed=int(processed), yields=[int(ylds.get(n, 0)) for n in names],
               yields_foreign=int(sum(v for k, v in dict(ylds).items() if k not in names)) + obs['logForeign'],
               prior_raised=prior_raised)
    shutil.rmtree(d, True)
    return obs


def observe(target_dir, cfg, names):
    g = (cfg.get('cli') or {}).get('g')
    pre = '' if g is None else '%d_TEMP_' % g          # demux.py -g <group id>: chunk prefix of all output files
    logged, lp, ly, lf = parse_log(os.path.join(target_dir, pre + 'demultiplexing.log'), names)
    return {'logged': logged, 'logProcessed': lp, 'logYields': ly, 'logForeign': lf,
            'tgt': read_sinks(target_dir, os.path.join(target_dir, pre + 'demultiplexed'), cfg['mates'], False, cfg['percell']),
            'rej': read_sinks(target_dir, os.path.join(target_dir, pre + 'rejects'), cfg['mates'], True) if cfg['hasRej'] else []}


def write_inputs_illumina(d, lib, lanes, mates, cfg=None):
    """<lib>_L00<k>_R<m>_001.fastq.gz : the bcl2fastq naming, one file (pair) per lane"""
    files = []
    for li, part in enumerate(lanes, start=1):
        for k in range(mates):
            p = os.path.join(d, '%s_L%03d_R%d_001.fastq.gz' % (lib, li, k + 1))
            with gzip.open(p, 'wb') as f:
                f.write(fastq_bytes(part, k, cfg or {}))
            files.append(p)
    return files


def cli_pass(names, pairs, cfg, maxpairs, d, out, tag):
    lib = cfg['lib']
    ind = os.path.join(d, tag)
    os.makedirs(ind)
    lanes = split_lanes(pairs, cfg)
    files = write_inputs(ind, lib, pairs, cfg['mates'], gz=True, cfg=cfg) if len(lanes) == 1 else \
        write_inputs_illumina(ind, lib, lanes, cfg['mates'], cfg)
    if cfg.get('cli_extra_lib') and tag == 'main':
        # a second library in the same invocation whose name contains the first one; its records carry foreign ids
        other = relabel(pairs[:max(1, len(pairs) // 2)], len(pairs))
        files = files + write_inputs(ind, lib + '1', other, cfg['mates'], gz=True, cfg=cfg)
    if cfg.get('cli_reverse'):
        files = files[::-1]                 # demux.py sorts its arguments itself
    opt = cfg.get('cli') or {}
    if opt.get('dup_args'):
        files = files + [files[0]]          # the same file given twice: demux.py prunes duplicates
    if opt.get('filelist'):
        lst = os.path.join(ind, 'files.txt')            # one argument that is not a fastq file: a list of files
        with open(lst, 'w') as f:
            f.write('\n'.join(files) + '\n')
        files = [lst]
    argv = ['demux.py'] + files + (['-use', ','.join(names)] if not (cfg.get('cli_auto') and tag == 'main') else []) + ['--y', '-o', out]
    if opt.get('g') is not None:
        argv += ['-g', str(opt['g'])]
    if opt.get('mxa'):
        argv += ['-mxa', str(opt['mxa'])]
    if opt.get('only'):
        argv += ['-only_detect_methods', opt['only']]
    if opt.get('hd'):
        argv += ['-hd', str(opt['hd'])]
    if opt.get('si'):
        argv += ['-si', opt['si']]
    if cfg['percell'] and 'fh' in cfg:
        argv += ['-fh', str(cfg['fh'])]
    if cfg['mates'] == 1:
        argv.append('--se')
    if not cfg['hasRej']:
        argv.append('--norejects')
    if cfg['percell']:
        argv.append('--scsepf')
    if maxpairs:
        argv += ['-n', str(maxpairs)]
    raised = ''
    old = sys.argv
    sys.argv = argv
    try:
        with contextlib.redirect_stdout(io.StringIO()):
            runpy.run_module('singlecellmultiomics.modularDemultiplexer.demux', run_name='__main__')
    except SystemExit as ex:
        if ex.code not in (0, None):
            raised = 'SystemExit'
    except Exception as ex:
        raised = type(ex).__name__
    finally:
        sys.argv = old
    import gc
    gc.collect()         # handles left open by a crashed run are flushed by their finalisers, as at interpreter exit
    return raised


def autodetect(loader, pairs, cfg, workdir, mxa=1):
    """which strategies demux.py selects without -use (its lines 316-339, through the loader of this process)"""
    d = tempfile.mkdtemp(prefix='auto_', dir=workdir)
    lanes = split_lanes(pairs, cfg)
    if len(lanes) == 1:
        files = write_inputs(d, cfg['lib'], pairs, cfg['mates'], gz=True, cfg=cfg)
        libs = {cfg['lib']: {'single_file': dict(('R%d' % (k + 1), [f]) for k, f in enumerate(files))}}
    else:       # the lane structure demux.py sees (it probes the first lane only)
        files = write_inputs_illumina(d, cfg['lib'], lanes, cfg['mates'], cfg)
        m = cfg['mates']
        libs = {cfg['lib']: dict(('%s_L%03d' % (cfg['lib'], li + 1), dict(('R%d' % (k + 1), [files[li * m + k]]) for k in range(m)))
                                 for li in range(len(lanes)))}
    try:
        with contextlib.redirect_stdout(io.StringIO()), contextlib.redirect_stderr(io.StringIO()):
            processed, ylds = loader.dmx.detectLibYields(libs, testReads=2000, maxAutoDetectMethods=mxa, minAutoDetectPct=2, verbose=False)
            sel = list(loader.dmx.selectedStrategiesBasedOnYield(ylds[cfg['lib']]['processedReadPairs'],
                                                                 ylds[cfg['lib']]['strategyYields'],
                                                                 maxAutoDetectMethods=mxa, minAutoDetectPct=2))
    except Exception:       # the probe pass of the code under test crashed: no prediction, the caller names the strategy itself
        sel = None
    shutil.rmtree(d, True)
    return sel


def run_cli(names, pairs, cfg, workdir):
    """the real entry point: python -m ...demux <files> -use .. --y -o .. (in process through runpy; it loads its own
    barcodes), after its history (earlier invocations with the same -o), if any"""
    lib = cfg['lib']
    d = tempfile.mkdtemp(prefix='cli_', dir=workdir)
    out = os.path.join(d, 'out')
    prior_raised = ''
    for i, (ppairs, pmax) in enumerate(prior_passes(pairs, cfg)):
        prior_raised = prior_raised or cli_pass(names, ppairs, cfg, pmax, d, out, 'prior%d' % i)
    raised = cli_pass(names, pairs, cfg, cfg['maxpairs'], d, out, 'main')
    target_dir = os.path.join(out, lib)
    obs = observe(target_dir, cfg, names) if os.path.isdir(target_dir) else {'logged': False, 'logProcessed': -1,
                                                                                'logYields': [0] * len(names), 'logForeign': 0,
                                                                                'tgt': [], 'rej': []}
    # the script reports its counters only through the log
    obs.update(raised=raised, processed=obs['logProcessed'], yields=list(obs['logYields']), yields_foreign=obs['logForeign'],
               prior_raised=prior_raised)
    shutil.rmtree(d, True)
    return obs


def run_event(tid, grp, entry, names, pairs, acc, cfg, obs, extra=None):
    e = {'ev': 'run', 'tid': tid, 'grp': grp, 'entry': entry, 'mates': cfg['mates'], 'hasRej': cfg['hasRej'],
         'percell': cfg['percell'], 'maxpairs': cfg['maxpairs'], 'gz': bool(cfg.get('gz', True)), 'gz_mates': [bool(x) for x in cfg.get('gz_mates') or []], 'fh': int(cfg.get('fh', 500)), 'prune': int(cfg.get('prune') or 0),
         'prior': cfg.get('prior') or '', 'prior_k': int(cfg.get('prior_k') or 0), 'lanes': int(cfg.get('lanes', 1)),
         'lane_split': int(cfg.get('lane_split', 0)), 'lane_splits': [int(x) for x in cfg.get('lane_splits') or []], 'stale_dir': bool(cfg.get('stale_dir')),
         'eol': cfg.get('eol') or 'lf', 'nofinalnl': bool(cfg.get('nofinalnl')), 'trailing_blank': bool(cfg.get('trailing_blank')), 'nofile': int(cfg.get('nofile') or 0),
         'cli_cfg': json.dumps(cfg.get('cli') or {}, sort_keys=True), 'nolog': bool(cfg.get('nolog')),
         'cli_auto': bool(cfg.get('cli_auto')), 'cli_reverse': bool(cfg.get('cli_reverse')), 'cli_extra_lib': bool(cfg.get('cli_extra_lib')),
         'strategies': names, 'lib': cfg['lib'], 'N': len(pairs),
         'classes': [[p['hdr'], p['content']] for p in pairs],
         'inp': [{'id': p['id'], 'h': [r['h'] for r in p['m']], 'p': [r['plus'] for r in p['m']], 'm': [{'seq': r['seq'], 'qual': r['qual']} for r in p['m']]}
                 for p in pairs],
         'acc': acc}
    e.update(obs)
    if extra:
        e.update(extra)
    return e


class Recorder:
    def __init__(self, path):
        self.f = open(path, 'w')
        self.tid = 0
        self.grp = 0

    def emit(self, e):
        self.f.write(json.dumps(e, separators=(',', ':')) + '\n')

    def group(self, loader, names, pairs, cfgs, workdir, entry='api', extra=None):
        """one library + strategy set, executed under several sink configurations"""
        self.grp += 1
        strategies = loader.select(names)                   # the strategies NAMED: K, the oracle and the counters refer to these
        snames = [s.shortName for s in strategies]
        select_raised = ''
        try:                                                # what the code under test makes of the same list of names
            selected = loader.select_by_string_list(snames)
        except Exception as ex:
            selected, select_raised = None, 'select:' + type(ex).__name__
        runs = []
        acc = oracle(strategies, pairs, cfgs[0]['lib'])
        for cfg in cfgs:
            self.tid += 1
            if entry == 'api' and selected is None:
                obs = {'logged': False, 'logProcessed': -1, 'logYields': [0] * len(snames), 'logForeign': 0, 'tgt': [], 'rej': [],
                       'raised': select_raised, 'processed': -1, 'yields': [0] * len(snames), 'yields_foreign': 0, 'prior_raised': ''}
            else:
                obs = run_api(loader, selected, snames, pairs, cfg, workdir) if entry == 'api' else run_cli(snames, pairs, cfg, workdir)
            self.emit(run_event(self.tid, self.grp, entry, snames, pairs, acc, cfg, obs, dict(extra or {}, hd=loader.hd, si=loader.si)))
            n = len(pairs) if not cfg['maxpairs'] else min(len(pairs), cfg['maxpairs'])
            runs.append({'n': n, 'cfg': [cfg['hasRej'], cfg['percell'], cfg['maxpairs']],
                         'ids': [r['id'] for sk in obs['tgt'] for r in sk['mates'][0]['recs']]})
        if len(runs) > 1:
            self.tid += 1
            self.emit({'ev': 'same', 'tid': self.tid, 'grp': self.grp, 'N': len(pairs), 'strategies': snames, 'runs': runs})


def configs(rng, lib, mates, n, full):
    base = {'lib': lib, 'mates': mates, 'gz': rng.random() < 0.7, 'eol': rng.choice(['lf', 'lf', 'crlf']),
            'nofinalnl': rng.random() < 0.4, 'trailing_blank': rng.random() < 0.2, 'nolog': rng.random() < 0.15}
    if mates == 2 and rng.random() < 0.35:
        base['gz_mates'] = rng.choice([[True, False], [False, True]])      # R1 .fastq.gz with R2 .fastq, or the reverse
    out = [dict(base, hasRej=True, percell=False, maxpairs=0),
           dict(base, hasRej=False, percell=False, maxpairs=0)]
    out.append(dict(base, hasRej=rng.random() < 0.7, percell=True, maxpairs=0, fh=rng.choice([0, 1, 2, 500]),
                    prune=rng.choice([0, 1, 3, 7])))
    out.append(dict(base, hasRej=True, percell=False, maxpairs=rng.randint(1, n + 1)))
    k1 = max(1, n)
    # histories: an earlier run into the same output prefix (test run with a cut-off / a different, longer library),
    # several lanes through the same handles, output directory already there, cut-off with per-cell sinks
    out.append(dict(base, hasRej=rng.random() < 0.5, percell=True, maxpairs=0, prior='testrun', prior_k=rng.randint(1, k1),
                    fh=rng.choice([1, 2, 500]), prune=rng.choice([0, 3, 7])))
    out.append(dict(base, hasRej=True, percell=rng.random() < 0.5, maxpairs=rng.choice([0, rng.randint(1, k1)]), prior='other'))
    out.append(dict(base, hasRej=rng.random() < 0.7, percell=rng.random() < 0.5, maxpairs=rng.choice([0, rng.randint(1, n + 1)]),
                    lanes=2, lane_split=rng.choice([0, n, rng.randint(0, n)]), stale_dir=True))
    out.append(dict(base, hasRej=rng.random() < 0.5, percell=True, maxpairs=rng.randint(1, k1), fh=rng.choice([1, 3]),
                    prune=rng.choice([0, 2, 5])))
    if full:
        out.append(dict(base, hasRej=False, percell=True, maxpairs=rng.randint(1, k1)))
        out.append(dict(base, hasRej=True, percell=True, maxpairs=n, fh=rng.choice([1, 3]), prune=rng.choice([1, 2, 5, 11])))
        out.append(dict(base, hasRej=True, percell=False, maxpairs=0, prior='testrun', prior_k=rng.randint(1, k1)))
        out.append(dict(base, hasRej=rng.random() < 0.5, percell=True, maxpairs=rng.choice([0, rng.randint(1, k1)]), prior='other',
                        lanes=2, lane_split=rng.randint(0, n), fh=rng.choice([1, 500]), prune=rng.choice([0, 3])))
    return out


# ------------------------------------------------------------------------------------------------
# spec -> code: TLC scenarios (Demux.tla, Scenario) realised as libraries

REPLAY_STRATEGIES = ['CS2C8U6', 'NLAIII384C8U3']      # different layouts and whitelists: "A"/"N" independent per strategy


def realise(rng, loader, scn, strategies):
    """outcome matrix -> pairs. 'W': sequencing index unknown; 'E': header no parser accepts; A/N per strategy by barcode."""
    lays = [layout_of(s, rng, loader) for s in strategies]
    wls = [loader.bp[l['alias']] for l in lays]
    pairs = []
    for pid, row in enumerate(scn['out'], start=1):
        hdr = 'ill11'
        if row[0] == 'W':
            hdr = rng.choice(['ill11unk', 'ill10', 'ill7'])
        elif row[0] == 'E':
            hdr = rng.choice(['garbage', 'sra'])
        for _ in range(2000):
            s = list(rand_seq(rng, rng.randint(40, 60)))
            for lay, wl, want in zip(lays, wls, row):
                if want == 'A':
                    bc = rng.choice(sorted(wl.keys()))
                    for k, p in enumerate(lay['bc']):
                        s[p] = bc[k]
            seq = ''.join(s)
            ok = True
            for lay, wl, want in zip(lays, wls, row):
                got = ''.join(seq[p] for p in lay['bc']) in wl
                if want in ('A', 'N') and got != (want == 'A'):
                    ok = False
            if ok:
                break
        else:
            raise RuntimeError('cannot realise %r' % (row,))
        seqs = [seq, rand_seq(rng, rng.randint(30, 50))]
        tok = TOKEN0 + pid
        pairs.append({'id': pid, 'hdr': hdr, 'content': 'scn:' + ''.join(row),
                      'm': [{'h': header(hdr, tok, k), 'seq': seqs[k], 'plus': '+', 'qual': rand_qual(rng, len(seqs[k]))}
                            for k in range(scn['mates'])]})
    return pairs


# ------------------------------------------------------------------------------------------------

SE_NAMES = ['NLAIII384C8U3SE', 'NLAIII96C8U3SE', 'scCHIC384C8U3se']


def main():
    out, tier = sys.argv[1], sys.argv[2]
    workdir = tempfile.mkdtemp(prefix='c01_', dir=os.getcwd())
    rec = Recorder(out)
    try:
        if tier == 'replay':
            replay(rec, sys.argv[3], workdir)
            return
        seed = int(sys.argv[3])
        scenarios = json.load(open(sys.argv[4])) if len(sys.argv) > 4 else []
        rng = random.Random(seed)
        loader = Loader(hd=0)
        quick = tier == 'quick'

        # (1) every registered strategy on its own: mixed library, all sink configurations
        npairs = 40 if quick else 120
        reps = 1 if quick else 3
        for rep in range(reps):
            for name in loader.names:
                for mates in ((2,) if quick and name not in SE_NAMES and rng.random() < 0.6 else (2, 1)):
                    strategies = loader.select([name])
                    pairs = make_library(rng, loader, strategies, npairs, mates, focus=0)
                    rec.group(loader, [name], pairs, configs(rng, 'LIB%d' % rng.randint(1, 99), mates, npairs, not quick), workdir)

        # (2) every phred value 0..93 in UMI, barcode, ligation, insert and mate 2, clean headers
        sweep = [(q, region) for region in ('umi', 'bc', 'lig', 'ins', 'r2') for q in range(94)]
        phred_strats = ['CS2C8U6', 'scCHIC384C8U3', 'DamID2_3u4b3u6b'] if quick else loader.names
        for name in phred_strats:
            strategies = loader.select([name])
            cells = sweep if not quick else [c for c in sweep if c[0] in (0, 1, 40, 50, 51, 52, 53, 92, 93)]
            chunk = 47
            for i in range(0, len(cells), chunk):
                part = cells[i:i + chunk]
                pairs = make_library(rng, loader, strategies, len(part), 2, focus=0, phreds=part,
                                     hdr_classes=['ill11', 'ill11num', 'scmo'])
                base = {'lib': 'PHRED', 'mates': 2, 'gz': True}
                rec.group(loader, [name], pairs, [dict(base, hasRej=True, percell=False, maxpairs=0),
                                                  dict(base, hasRej=False, percell=True, maxpairs=0)], workdir)

        # (3) several strategies at once (demux.py -use A,B / -maxAutoDetectMethods > 1)
        # ... including strategies whose names are prefixes of each other / that share whitelist and layout
        related = [['CS2C8U6', 'CS2C8U6NH', 'CS2C8U6S'], ['NLAIII384C8U3', 'NLAIII384C8U3SE'], ['scCHIC384C8U3', 'scCHIC384C8U3l'],
                   ['DamID2', 'DamID2_8bp_noCA', 'DamID2_3u4b3u6b'], ['ILLU', 'CS2C8U6'], ['NLAIII96C8U3SE', 'NLAIII96C8U3']]
        for j in range(12 if quick else 150):
            k = rng.choice([2, 2, 3])
            names = related[j] if j < len(related) else rng.sample(loader.names, k)
            mates = rng.choice([2, 2, 1])
            strategies = loader.select(names)
            n = rng.randint(3, 30)
            pairs = make_library(rng, loader, strategies, n, mates)
            rec.group(loader, names, pairs, configs(rng, 'MULTI', mates, n, False), workdir)

        # (4) tiny libraries: 0, 1, 2 pairs; cut-off equal to / beyond the library size
        for _ in range(6 if quick else 60):
            name = rng.choice(loader.names)
            strategies = loader.select([name])
            n = rng.choice([0, 1, 1, 2, 3])
            mates = rng.choice([1, 2])
            pairs = make_library(rng, loader, strategies, n, mates, focus=0)
            base = {'lib': rng.choice(['TINY', '']), 'mates': mates, 'gz_mates': rng.choice([[], [True, False], [False, True]]) if mates == 2 else [], 'gz': rng.random() < 0.5, 'eol': rng.choice(['lf', 'crlf']),
                    'nofinalnl': rng.random() < 0.5}
            rec.group(loader, [name], pairs, [dict(base, hasRej=True, percell=False, maxpairs=0),
                                              dict(base, hasRej=True, percell=rng.random() < 0.5, maxpairs=max(1, n)),
                                              dict(base, hasRej=False, percell=False, maxpairs=n + 1)], workdir)

        # (5) TLC scenarios of the design model replayed into the real loader
        strategies = loader.select(REPLAY_STRATEGIES)
        for scn in scenarios:
            pairs = realise(rng, loader, scn, strategies)
            cfg = {'lib': 'SCN', 'mates': scn['mates'], 'gz': True, 'hasRej': scn['hasRej'], 'percell': False,
                   'maxpairs': scn['maxPairs']}
            rec.group(loader, REPLAY_STRATEGIES, pairs, [cfg], workdir, extra={'scn': scn})

        # (7) barcode correction switched on (demux.py -hd 1): 1-mismatch barcodes are now accepted
        loader1 = Loader(hd=1)
        for name in (rng.sample(loader1.names, 6) if quick else loader1.names):
            strategies = loader1.select([name])
            mates = rng.choice([2, 2, 1])
            pairs = make_library(rng, loader1, strategies, npairs, mates, focus=0,
                                 content_classes=['exact', 'mm1', 'mm1', 'mm1', 'unknown', 'n_bc', 'n_umi'])
            rec.group(loader1, [name], pairs, configs(rng, 'HD1', mates, npairs, False), workdir)

        # (8) long library names: the rebuilt header of SOME pairs passes the 254 character limit of asFastq, i.e. the
        #     strategy demultiplexes the pair but the target write raises (and the formatted reject raises as well)
        for i in range(8 if quick else 60):
            name = rng.choice([n for n in loader.names if n != 'CHROMC16U12'])
            mates = rng.choice([2, 2, 1])
            strategies = loader.select([name])
            n = rng.randint(8, 24)
            pairs = make_library(rng, loader, strategies, n, mates, focus=0, hdr_classes=['ill11', 'ill11num', 'dec3', 'scmo', 'ill11'],
                                 content_classes=['exact', 'exact', 'exact', 'unknown', 'mm1', 'n_umi'])
            # letters only: a run of digits in the library name could look like the id token of a pair to this driver
            lib = 'LIB' + ''.join(rng.choice('abcdefghijklmnopqrstuvwxyzABCDEFGHIJKLMNOPQRSTUVWXYZ') for _ in range(rng.randint(50, 105)))
            base = {'lib': lib, 'mates': mates, 'gz': True}
            rec.group(loader, [name], pairs, [dict(base, hasRej=True, percell=False, maxpairs=0),
                                              dict(base, hasRej=False, percell=False, maxpairs=rng.choice([0, rng.randint(1, n)])),
                                              dict(base, hasRej=True, percell=True, maxpairs=0)], workdir)

        # (10) header length exactly at the limit of asFastq (254): the library name is calibrated on the strategy's own output
        #      so that the rebuilt header of the reference pair has 253, 254, 255 characters
        from singlecellmultiomics.fastqProcessing.fastqIterator import FastqRecord
        for name in (['CS2C8U6', 'scCHIC384C8U3', 'ILLU'] if quick else [n for n in loader.names if n != 'CHROMC16U12']):
            strategies = loader.select([name])
            pairs = make_library(rng, loader, strategies, 12, 2, focus=0, hdr_classes=['ill11'], content_classes=['exact'])
            lens = set()
            for pr in pairs:
                reads = tuple(FastqRecord(r['h'], r['seq'], r['plus'], r['qual']) for r in pr['m'])
                try:
                    lens.add(len(str(strategies[0].demultiplex(reads, library='', probe=None)[0]).split('\n')[0]) - 1)
                except Exception:
                    pass
            for target in (253, 254, 255):
                for l0 in sorted(lens)[:2]:
                    if 0 < target - l0 < 200:
                        base = {'lib': 'L' * (target - l0), 'mates': 2, 'gz': True}
                        rec.group(loader, [name], pairs, [dict(base, hasRej=True, percell=False, maxpairs=0),
                                                          dict(base, hasRej=False, percell=True, maxpairs=0)], workdir)

        # (9) per-cell sinks under a real RLIMIT_NOFILE below the number of cell files (HandleLimiter closes everything and
        #     reopens in append mode; fault *injection* is C19, this is the plain operating-system limit)
        for i in range(4 if quick else 40):
            name = rng.choice(['CS2C8U6', 'NLAIII384C8U3', 'scCHIC384C8U3', 'MSPJIC8U3', 'DamID2', 'SCARC8R1', 'CS2C8U6NH'])
            mates = rng.choice([2, 2, 1])
            strategies = loader.select([name])
            n = rng.randint(30, 60)
            pairs = make_library(rng, loader, strategies, n, mates, focus=0, content_classes=['exact', 'exact', 'exact', 'unknown'],
                                 hdr_classes=['ill11', 'ill11', 'ill11num', 'dec3', 'scmo', 'ill10'])
            base = {'lib': 'FDLIMIT', 'mates': mates, 'gz': rng.random() < 0.5}
            rec.group(loader, [name], pairs, [dict(base, hasRej=True, percell=False, maxpairs=0),
                                              dict(base, hasRej=rng.random() < 0.5, percell=True, maxpairs=0, nofile=rng.randint(2, 4)),
                                              dict(base, hasRej=True, percell=True, maxpairs=rng.randint(1, n), nofile=rng.randint(2, 4),
                                                   lanes=2, lane_split=rng.randint(0, n))], workdir)

        # (6) the real command line entry point (python -m ...demux through runpy; it loads its own barcode files)
        for i in range(3 if quick else 16):
            name = rng.choice(['CS2C8U6', 'NLAIII384C8U3', 'scCHIC384C8U3', 'MSPJIC8U3', 'DamID2'])
            mates = 2 if i % 4 != 3 else 1
            strategies = loader.select([name])
            n = rng.randint(10, 40)
            pairs = make_library(rng, loader, strategies, n, mates, focus=0,
                                 content_classes=None if i % 3 else ['exact', 'exact', 'exact', 'unknown', 'mm1', 'empty'])
            cfg = {'lib': 'CLILIB', 'mates': mates, 'hasRej': i % 3 != 2, 'percell': i % 2 == 1,
                   'maxpairs': 0 if i % 4 != 2 else rng.randint(1, n)}
            if i % 2 == 1 or i == 0:
                cfg.update(nofinalnl=True, eol='crlf' if i % 4 == 3 else 'lf')
            if i == 5:
                cfg['lib'] = 'CLILIB' + 'x' * 78
            if i == 0:      # the usual way of working: -n k to have a look, then the real run into the same -o, one file per cell
                cfg.update(percell=True, prior='testrun', prior_k=rng.randint(1, n))
            elif i % 4 == 1:
                cfg.update(prior='testrun', prior_k=rng.randint(1, n))
            elif i % 4 == 2:
                cfg.update(prior='other')
            elif i % 4 == 0:
                cfg.update(lanes=2, lane_split=rng.randint(1, n - 1), percell=True, maxpairs=rng.choice([0, rng.randint(1, n)]))
            if mates == 2 and i % 3 == 1:
                cfg['gz_mates'] = [[True, False], [False, True]][(i // 3) % 2]
            if i in (0, 4, 7, 11):
                cfg['cli_reverse'] = True       # file arguments in reverse order
            if i in (2, 6, 10):
                cfg['cli_extra_lib'] = True     # a second library (CLILIB1) in the same invocation
            use = [name]
            if i in (0, 1, 3, 6, 9, 12, 15):    # no -use: probe pass over the library, then the best scoring strategy
                sel = autodetect(loader, pairs, cfg, workdir)
                if sel is not None and len(sel) == 1:
                    cfg['cli_auto'], use = True, sel
            rec.group(loader, use, pairs, [cfg], workdir, entry='cli')

        # (6b) demux.py -n with several lanes: the cut-off is reached exactly at the end of a lane, inside the first lane, inside a
        #      later lane, at the end of the last-but-one of three lanes, beyond the library (the lane loop of demux.py 474-498
        #      computes the remainder; pairs behind the cut-off must be in no sink and the log must equal the files)
        shapes = [('end_of_lane1', lambda a, b, n: ([a], a)), ('inside_lane1', lambda a, b, n: ([a], max(1, a - 2))),
                  ('inside_lane2', lambda a, b, n: ([a], a + 1)), ('3lanes_end_of_lane1', lambda a, b, n: ([a, b], a)),
                  ('3lanes_end_of_lane2', lambda a, b, n: ([a, b], b)), ('3lanes_inside_lane2', lambda a, b, n: ([a, b], a + 1)),
                  ('3lanes_middle_lane_empty', lambda a, b, n: ([a, a], a)), ('first_lane_empty', lambda a, b, n: ([0, a], a)),
                  ('cutoff_1', lambda a, b, n: ([a, b], 1)), ('cutoff_is_library_size', lambda a, b, n: ([a, b], n)),
                  ('cutoff_beyond', lambda a, b, n: ([a], n + 3)), ('end_of_lane1_single_pair_lanes', lambda a, b, n: ([1, 2], 1))]
        order = shapes[:5] if quick else shapes + shapes
        for j, (label, f) in enumerate(order):
            name = rng.choice(['CS2C8U6', 'NLAIII384C8U3', 'scCHIC384C8U3', 'MSPJIC8U3', 'DamID2'])
            mates = 1 if j % 5 == 4 else 2
            strategies = loader.select([name])
            n = rng.randint(9, 24)
            a = rng.randint(3, n - 5)
            b = rng.randint(a + 2, n - 1)
            splits, cut = f(a, b, n)
            pairs = make_library(rng, loader, strategies, n, mates, focus=0,
                                 content_classes=['exact', 'exact', 'unknown', 'mm1', 'empty', 'n_umi'])
            cfg = {'lib': 'LANES', 'mates': mates, 'hasRej': j % 4 != 3, 'percell': j % 2 == 1, 'maxpairs': cut,
                   'lanes': len(splits) + 1, 'lane_splits': splits, 'nofinalnl': j % 3 == 0}
            rec.group(loader, [name], pairs, [cfg], workdir, entry='cli', extra={'shape': label})
            if not quick:
                rec.group(loader, [name], pairs, [dict(cfg)], workdir, entry='api', extra={'shape': label})

        # (6c) option and argument variants of the command line that change which code handles the same data
        loader_si = Loader(hd=0, si='GTGAAA,TTAGGC')
        variants = ['se_auto', 'none_selected', 'dup_args', 'filelist', 'g0', 'g3_prior', 'mxa2', 'only', 'hd1', 'si', 'superstring']
        for j, var in enumerate(variants if quick else variants * 3):
            ld = {'hd1': loader1, 'si': loader_si}.get(var, loader)
            name = rng.choice(['CS2C8U6', 'NLAIII384C8U3', 'MSPJIC8U3', 'DamID2'])
            if var == 'superstring':    # -use <a name that contains another registered name>: only the named strategy may run
                name = rng.choice(['CS2C8U6NH', 'CS2C8U6S', 'NLAIII384C8U3SE', 'SCARC8R2R4', 'DamID2_8bp_noCA', 'scCHIC384C8U3l'])
            mates = 1 if var == 'se_auto' or name.endswith('SE') or (j >= len(variants) and j % 4 == 3) else 2
            names = [name] if var != 'mxa2' else ['CS2C8U6', 'NLAIII384C8U3']
            strategies = ld.select(names)
            n = rng.randint(10, 30)
            classes = {'none_selected': ['emptyboth', 'shortprefix'], 'hd1': ['exact', 'mm1', 'mm1', 'unknown']}.get(
                var, ['exact', 'exact', 'exact', 'unknown', 'mm1', 'n_umi'])
            pairs = make_library(rng, ld, strategies, n, mates, focus=None if var == 'mxa2' else 0, content_classes=classes,
                                 hdr_classes=['ill11', 'ill11', 'ill11num', 'ill11unk', 'dec3', 'scmo', 'ill10'] if var == 'si' else None)
            if var == 'none_selected' and (j // len(variants)) % 2 == 0:
                # one demultiplexable pair among 59 others: the best strategy yields 1.7 % < -minAutoDetectPct 2 -> nothing selected
                pairs = make_library(rng, ld, strategies, 59, mates, focus=0, content_classes=['emptyboth', 'shortprefix'])
                for _ in range(20):     # until the one pair really is demultiplexable (the generator may lower-case it)
                    one = relabel(make_library(rng, ld, strategies, 1, mates, focus=0, content_classes=['exact'], hdr_classes=['ill11']), 59)
                    if oracle(strategies, one, 'OPTS') == [['A']]:
                        break
                pairs = pairs + one
                n = 60
            cfg = {'lib': 'OPTS', 'mates': mates, 'hasRej': j % 3 != 2, 'percell': j % 2 == 1, 'fh': rng.choice([0, 1, 500]),
                   'maxpairs': 0 if j % 4 else rng.randint(1, n), 'cli': {}}
            if mates == 2 and j % 3 == 2:
                cfg['gz_mates'] = [[True, False], [False, True]][(j // 3) % 2]
            use = [s.shortName for s in strategies]
            if var in ('se_auto', 'none_selected', 'mxa2'):
                mxa = 2 if var == 'mxa2' else 1
                if mxa == 2:
                    cfg['cli']['mxa'] = 2
                sel = autodetect(ld, pairs, cfg, workdir, mxa=mxa)
                if sel is not None:
                    use, cfg['cli_auto'] = sel, True
            elif var in ('dup_args', 'filelist'):
                cfg['cli'][var] = True
            elif var == 'g0':
                cfg['cli']['g'] = 0
            elif var == 'g3_prior':
                cfg['cli']['g'] = 3
                cfg.update(prior='testrun', prior_k=rng.randint(1, n), maxpairs=0)
            elif var == 'only':
                cfg['cli']['only'] = name + ',ILLU'
            elif var == 'hd1':
                cfg['cli']['hd'] = 1
            elif var == 'si':
                cfg['cli']['si'] = 'GTGAAA,TTAGGC'
            rec.group(ld, use, pairs, [cfg], workdir, entry='cli', extra={'shape': var})
    finally:
        rec.f.close()
        shutil.rmtree(workdir, True)


def replay(rec, case_path, workdir):
    """re-run recorded cases (inputs and configuration are in the run events) against the current code"""
    with open(case_path) as f:
        evs = json.load(f)['runs']
    loaders = {}
    ev = evs[0]
    hd = ev.get('hd', 0)
    loader = loaders.setdefault(hd, Loader(hd=hd, si=ev.get('si') or None))
    pairs = [{'id': p['id'], 'hdr': c[0], 'content': c[1],
              'm': [{'h': h, 'seq': m['seq'], 'plus': pl, 'qual': m['qual']}
                    for h, pl, m in zip(p['h'], p.get('p') or ['+'] * len(p['h']), p['m'])]}
             for p, c in zip(ev['inp'], ev['classes'])]
    cfgs = [{'lib': e['lib'], 'mates': e['mates'], 'gz': e.get('gz', True), 'gz_mates': e.get('gz_mates') or [], 'fh': e.get('fh', 500), 'prune': e.get('prune', 0),
             'prior': e.get('prior') or None, 'prior_k': e.get('prior_k', 0), 'lanes': e.get('lanes', 1),
             'lane_split': e.get('lane_split', 0), 'lane_splits': e.get('lane_splits') or [], 'stale_dir': e.get('stale_dir', False), 'eol': e.get('eol', 'lf'),
             'nofinalnl': e.get('nofinalnl', False), 'trailing_blank': e.get('trailing_blank', False), 'cli_auto': e.get('cli_auto', False),
             'cli_reverse': e.get('cli_reverse', False), 'cli_extra_lib': e.get('cli_extra_lib', False), 'nofile': e.get('nofile', 0),
             'cli': json.loads(e.get('cli_cfg') or '{}'), 'nolog': e.get('nolog', False), 'hasRej': e['hasRej'],
             'percell': e['percell'], 'maxpairs': e['maxpairs']} for e in evs]
    rec.group(loader, ev['strategies'], pairs, cfgs, workdir, entry=ev.get('entry', 'api'),
              extra={'scn': ev['scn']} if 'scn' in ev else None)


if __name__ == '__main__':
    main()
