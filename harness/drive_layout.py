"""C02 driver: records what the real strategy.demultiplex() of every registered demultiplexing strategy returns
for generated read pairs.
usage: drive_layout.py <out.ndjson> <tier> <seed> <scenarios.json> [only=<shortName>,..] [n=<pairs per branch>]
       drive_layout.py <out.ndjson> replay 0 <event.json>      re-run the recorded input of one event through the real code

Spec -> code: <scenarios.json> holds the layouts printed by TLC from spec/Layout.tla (MC_Layout_gen.cfg): the whitelist
alias, the barcode positions, the slice boundaries and the trimming rules of every strategy branch.  The generator places a
whitelist barcode at the table's positions and chooses read lengths on and around every boundary of the table.
Only drives and records: texts are recorded as sequences of character codes; Trace_Layout (TLC) recomputes every tag and
emitted slice from the layout table and judges."""
import contextlib
import io
import json
import os
import random
import sys

BASE_TAGS = ['bc', 'RX', 'RQ', 'rS', 'lh', 'lq', 'QT', 'ES', 'eq', 'IS', 'tu', 'rx']
META_TAGS = ['bi', 'BC', 'MX', 'dt', 'RR']
OLIGO = 'AGACTCTTT'
INDEX_ALIAS = 'illumina_merged_ThruPlex48S_RP'
# whitelists that are not shipped / shipped empty: a small user supplied whitelist is added through the public
# BarcodeParser.addBarcode() on a SEPARATE parser, so that those layouts are exercised too (events carry inj=1)
INJECT = {'10x_3M-february-2018': ['ACGTACGTACGTACGT', 'TTGGCCAATTGGCCAA', 'GATTACAGATTACAGA', 'CCCCAAAATTTTGGGG'],
          # the last two start with a CS2_scattered_8bp barcode: such reads match both whitelists of DamID2andT_3u4b3u6b
          'DamID2_scattered_10bp': ['TGCATATGCA', 'GTGCTGAACA', 'ACACGTGTCA', 'GATGTCATCA', 'TCTCCGAGCA']}


def codes(s):
    return [ord(c) for c in str(s)]


def build(hd, inject=False):
    import singlecellmultiomics
    from singlecellmultiomics.barcodeFileParser import barcodeFileParser
    from singlecellmultiomics.modularDemultiplexer.demultiplexingStrategyLoader import DemultiplexingStrategyLoader
    base = os.path.dirname(singlecellmultiomics.__file__)
    bp = barcodeFileParser.BarcodeParser(hammingDistanceExpansion=hd, lazyLoad=("10x_3M-february-2018",),
                                         barcodeDirectory=os.path.join(base, 'modularDemultiplexer', 'barcodes'))
    ip = barcodeFileParser.BarcodeParser(hammingDistanceExpansion=1,
                                         barcodeDirectory=os.path.join(base, 'modularDemultiplexer', 'indices'))
    if inject:
        for alias, bcs in INJECT.items():
            try:
                _ = bp[alias]          # resolves a pending (lazy) file first, as the package does
            except Exception:
                pass
            if not bp.barcodes.get(alias):
                for i, b in enumerate(bcs):
                    bp.addBarcode(alias, barcode=b, index=i + 1)
                if hd:
                    bp.expand(hd, alias=alias)
    with contextlib.redirect_stdout(io.StringIO()):
        dmx = DemultiplexingStrategyLoader(barcodeParser=bp, indexParser=ip, indexFileAlias=INDEX_ALIAS)
    return bp, ip, dmx


class Gen:
    def __init__(self, rng, bp, ip):
        self.rng, self.bp, self.ip = rng, bp, ip
        self.indices = sorted(ip.barcodes[INDEX_ALIAS].keys())

    def bases(self, n, pn=0.04):
        r = self.rng
        return ''.join('N' if r.random() < pn else r.choice('ACGT') for _ in range(n))

    def quals(self, n):
        r = self.rng
        mode = r.randrange(4)
        if mode == 0:
            return ''.join(chr(33 + r.randrange(52)) for _ in range(n))
        if mode == 1:   # extremes of the header alphabet: 0, 25, 26, 51
            return ''.join(chr(33 + r.choice([0, 1, 25, 26, 50, 51])) for _ in range(n))
        if mode == 2:   # a ramp, so that every shift of a slice is visible
            o = r.randrange(52)
            return ''.join(chr(33 + (o + i) % 52) for i in range(n))
        return ''.join(chr(33 + r.randrange(20, 42)) for _ in range(n))

    def length(self, sc, m):
        """a read length for mate m: on / next to every boundary of the table, or boundary + insert 0..150"""
        r = self.rng
        cuts = sorted(set(sc['cuts']) | {sc['ins'][m - 1], sc['need'][m - 1]})
        k = r.randrange(10)
        if k < 3:
            return max(0, r.choice(cuts) + r.choice([-1, 0, 1]))
        if k < 5:
            return sc['ins'][m - 1] + r.choice([0, 1, 2, 3, 5, 9, 10, 150])
        return sc['ins'][m - 1] + r.randrange(0, 151)

    def insert(self, sc, m, n, ctx):
        """content of the insert of mate m (length n) - plain random, or a recipe that triggers the content dependent rules"""
        r = self.rng
        s = self.bases(n)
        st = sc['strategy']
        k = r.randrange(10)
        if sc['trim'][m - 1] == 'skipT' and k < 7:
            t = r.choice([0, 1, 2, 5, 12, n, max(0, n - 1)])
            t = min(t, n)
            s = 'T' * t + s[t:]
        elif st == 'CHICTV' and m == 1 and k < 9 and n >= len(OLIGO):
            p = min(r.choice([0, 1, 5, 6, 7, r.randrange(0, n)]), n - len(OLIGO))
            s = s[:p] + OLIGO + s[p + len(OLIGO):]
            if k < 2 and n >= p + 2 * len(OLIGO) + 3:     # a second copy further down
                p2 = r.randrange(p + len(OLIGO), n - len(OLIGO) + 1)
                s = s[:p2] + OLIGO + s[p2 + len(OLIGO):]
        elif st == 'TCHIC':
            cs2 = ctx.get('cs2')
            if m == 1 and k < 5 and cs2 and n >= 6 + len(cs2) + 5:
                p = min(r.choice([0, 3, 6, 7, r.randrange(0, n)]), n - len(cs2) - 5)
                motif = cs2 + 'TTTTT'
                s = s[:p] + motif + s[p + len(motif):]
                ctx['vasa'] = True
            elif m == 1 and k == 5 and n >= 23:
                s = s[:2] + 'T' * 23 + s[25:]
            elif m == 1 and k == 6 and n >= 14:
                s = s[:3] + r.choice(['AGTCCGACGAT', 'GTTCTACAGT']) + s[14:]
            elif m == 2 and n >= 16:
                kk = r.randrange(6)
                if kk == 0:
                    p = r.randrange(0, n - 10)
                    s = s[:p] + 'A' * 10 + s[p + 10:]
                elif kk == 1:
                    p = r.randrange(0, n - 10)
                    s = s[:p] + 'G' * 10 + s[p + 10:]
                elif kk == 2:
                    t = r.randrange(1, 9)
                    s = s[:n - t] + ''.join(r.choice('GA') for _ in range(t))
                elif kk == 3 and cs2 and n >= len(cs2) + 12:
                    from singlecellmultiomics.utils import reverse_complement
                    motif = reverse_complement(self.bases(6, 0) + cs2 + 'TTTTT')
                    p = r.randrange(0, n - len(motif) + 1)
                    s = s[:p] + motif + s[p + len(motif):]
        return s

    def boundary_lengths(self, sc, m):
        """every length on / next to a slice boundary of the table at which mate m can still carry its barcode pieces"""
        cuts = set(sc['cuts']) | {sc['ins'][m - 1], sc['need'][m - 1]}
        return sorted({c + d for c in cuts for d in (-1, 0, 1) if c + d >= max(0, sc['need'][m - 1])})

    def pair(self, sc, tid, i=None):
        """-> (records as 4-tuples, nm, description of the generated case); the first pairs of a scenario (i = 0, 1, ..)
        walk deterministically through the boundary lengths of mate 1, then of mate 2"""
        r = self.rng
        nm = r.choice(sorted(sc['mates']))
        b1, b2 = self.boundary_lengths(sc, 1), self.boundary_lengths(sc, 2)
        forced = [None, None]
        if i is not None and i < len(b1):
            forced[0] = b1[i]
        elif i is not None and i < len(b1) + len(b2):
            forced[1] = b2[i - len(b1)]
            nm = max(sc['mates'])
        elif r.random() < 0.04:
            nm = 3 - nm if nm in (1, 2) else nm          # a record count the table does not list (expected: not accepted)
        wl = self.bp.barcodes.get(sc['wl'], {}) if sc['wl'] else {}
        ctx = {}
        desc = {'exact': 1, 'wl_n': len(wl)}
        barcode = ''
        if sc['bc']:
            blen = sum(hi - lo for _, lo, hi in sc['bc'])
            if wl:
                barcode = r.choice(sorted(wl.keys()))
                if sc['strategy'] == 'TCHIC':
                    idx = wl[barcode]
                    for k2, v2 in (self.bp.barcodes.get('celseq2') or {}).items():
                        if v2 == idx:
                            ctx['cs2'] = k2
                if r.random() < 0.2 and forced == [None, None]:   # one mismatch: the raw tag must keep the read's bases
                    p = r.randrange(len(barcode))
                    barcode = barcode[:p] + r.choice([c for c in 'ACGTN' if c != barcode[p]]) + barcode[p + 1:]
                    desc['exact'] = 0
            else:
                barcode = self.bases(blen, 0)
                desc['exact'] = 0
        lens = [self.length(sc, 1) if forced[0] is None else forced[0], self.length(sc, 2) if forced[1] is None else forced[1]]
        recs = []
        index = r.choice(self.indices)
        stale = self.stale_header(sc, tid, index) if r.random() < 0.25 else None
        desc['stale_header'] = 1 if stale else 0
        for m in (1, 2)[:nm]:
            n = lens[m - 1]
            start = sc['ins'][m - 1]
            prefix = self.bases(min(n, start), 0.02)
            body = self.insert(sc, m, max(0, n - start), ctx)
            s = list(prefix + body)
            off = 0
            for (pm, lo, hi) in sc['bc']:                  # place the barcode at the table's positions
                if pm == m:
                    for j in range(lo, hi):
                        if j < len(s):
                            s[j] = barcode[off + j - lo]
                off += hi - lo
            s = ''.join(s)
            hdr = '@NS500414:628:H7YVNBGXC:%d:%d:%d:%d %d:N:0:%s' % (1 + tid % 4, 11101, 1000 + tid % 30000, 1000 + tid // 7, m, index)
            if stale is not None:
                hdr = stale
            recs.append((hdr, s, '+', self.quals(len(s))))
        return recs, nm, desc

    def stale_header(self, sc, tid, index):
        """header of a read that went through an EARLIER demultiplexing pass (`@Is:..;RN:..;tag:value`, accepted by
        TaggedRecord.parse_scmo_header): it carries stale values for the tags the strategy is about to set - all different
        from what the bases of this read imply (bases the generator never puts at those places / other lengths)"""
        r = self.rng
        fake = {'bc': 'NNNNNNNNNNNNNNNN'[:r.choice([6, 8, 10, 16])], 'RX': 'NNNNNNNNNNNN'[:r.choice([3, 6, 8, 12])],
                'RQ': 'zzzzzzzzzzzz'[:r.choice([3, 6, 8])], 'rS': 'NNNNNNN', 'lh': 'NNN', 'lq': 'zzz', 'QT': 'zzzzzzzzz',
                'ES': 'NNNN', 'eq': 'zzzz', 'IS': 'NNNNNNNNNNNNNNNN'}
        parts = ['Is:NS500414', 'RN:628', 'Fc:H7YVNBGXC', 'La:%d' % (1 + tid % 4), 'Ti:11101', 'CX:%d' % (1000 + tid % 30000),
                 'CY:%d' % (1000 + tid // 7), 'Fi:N', 'CN:0', 'aa:%s' % index, 'aA:%s' % index, 'aI:1', 'LY:OLDLIB']
        parts += ['%s:%s' % (t, fake[t]) for t in sorted(sc.get('settags', [])) if t in fake]
        parts += ['bi:9999', 'BC:NNNNNNNN', 'MX:OLDMX']
        r.shuffle(parts)
        parts.remove('Is:NS500414')
        return '@' + ';'.join(['Is:NS500414'] + parts)


def observe(strategy, recs, FastqRecord, NonMultiplexable):
    records = tuple(FastqRecord(*x) for x in recs)
    obs = {'acc': False, 'raised': '', 'out': [], 'shape': ''}
    try:
        res = strategy.demultiplex(records, library='LIB', probe=None)
    except NonMultiplexable:
        obs['raised'] = 'NonMultiplexable'
        return obs
    except Exception as ex:            # a crash of the code under test is an observation
        obs['raised'] = type(ex).__name__
        return obs
    obs['acc'] = True
    if not isinstance(res, (list, tuple)):
        obs['shape'] = type(res).__name__
        res = [res]
    for o in res:
        if isinstance(o, str):         # IlluminaBaseDemultiplexer returns fastq text
            parts = o.split('\n')
            obs['out'].append({'seq': codes(parts[1]), 'qual': codes(parts[3]), 'tags': {}, 'meta': {'hdr': parts[0][:60]}})
        else:
            tags = {t: codes(o.tags[t]) for t in BASE_TAGS if t in o.tags}
            meta = {t: str(o.tags[t]) for t in META_TAGS if t in o.tags}
            obs['out'].append({'seq': codes(o.sequence), 'qual': codes(o.qualities), 'tags': tags, 'meta': meta})
    return obs


def replay(out, path):
    from singlecellmultiomics.fastqProcessing.fastqIterator import FastqRecord
    from singlecellmultiomics.modularDemultiplexer.baseDemultiplexMethods import NonMultiplexable
    with open(path) as f:
        ev = json.load(f)
    bp, ip, dmx = build(1, inject=bool(ev.get('inj')))
    strategies = {s.shortName: s for s in dmx.demultiplexingStrategies}
    index = sorted(ip.barcodes[INDEX_ALIAS].keys())[0]
    recs = []
    for m in (1, 2)[:ev['nm']]:
        hdr = ev.get('hdr') or '@NS500414:628:H7YVNBGXC:1:11101:%d:1000 %d:N:0:%s' % (1000 + ev['tid'] % 30000, m, index)
        recs.append((hdr, ''.join(map(chr, ev['r%d' % m])), '+', ''.join(map(chr, ev['q%d' % m]))))
    e = {k: ev[k] for k in ('ev', 'tid', 's', 'branch', 'inj', 'nm', 'r1', 'q1', 'r2', 'q2', 'gen', 'hdr') if k in ev}
    if ev['s'] in strategies:
        e.update(observe(strategies[ev['s']], recs, FastqRecord, NonMultiplexable))
    else:
        e.update({'acc': False, 'raised': 'NotRegistered', 'out': [], 'shape': ''})
    with open(out, 'w') as f:
        f.write(json.dumps(e, separators=(',', ':')) + '\n')


def main():
    if sys.argv[2] == 'replay':
        return replay(sys.argv[1], sys.argv[4])
    out, tier, seed, scn_path = sys.argv[1], sys.argv[2], int(sys.argv[3]), sys.argv[4]
    only = None
    per = None
    for a in sys.argv[5:]:
        if a.startswith('only='):
            only = a[5:].split(',')
        if a.startswith('n='):
            per = int(a[2:])
    with open(scn_path) as f:
        scenarios = json.load(f)
    from singlecellmultiomics.fastqProcessing.fastqIterator import FastqRecord
    from singlecellmultiomics.modularDemultiplexer.baseDemultiplexMethods import NonMultiplexable
    n_per = per if per is not None else (30 if tier == 'quick' else 1000)
    tid = 0
    stats = {}
    with open(out, 'w') as f:
        def emit(e):
            f.write(json.dumps(e, separators=(',', ':')) + '\n')

        for inj in (0, 1):
            bp, ip, dmx = build(1, inject=bool(inj))
            rng = random.Random(seed * 2 + inj)
            gen = Gen(rng, bp, ip)
            strategies = {s.shortName: s for s in dmx.demultiplexingStrategies}
            if not inj:
                tid += 1
                emit({'ev': 'registry', 'tid': tid, 'strategies': [s.shortName for s in dmx.demultiplexingStrategies],
                      'classes': [type(s).__name__ for s in dmx.demultiplexingStrategies]})
            for sc in scenarios:
                st = sc['strategy']
                if st not in strategies or (only and st not in only):
                    continue
                shipped = len(bp.barcodes.get(sc['wl'], {})) if sc['wl'] else -1
                if inj and sc['wl'] not in INJECT:
                    continue
                key = '%s/%d/%d' % (st, sc['branch'], inj)
                stats[key] = {'s': st, 'branch': sc['branch'], 'inj': inj, 'wl': sc['wl'], 'wl_n': shipped, 'attempts': 0, 'accepted': 0}
                n = n_per if (shipped != 0) else max(5, n_per // 10)
                for i in range(n):
                    tid += 1
                    recs, nm, desc = gen.pair(sc, tid, i)
                    obs = observe(strategies[st], recs, FastqRecord, NonMultiplexable)
                    stats[key]['attempts'] += 1
                    stats[key]['accepted'] += 1 if obs['acc'] else 0
                    e = {'ev': 'demux', 'tid': tid, 's': st, 'branch': sc['branch'], 'inj': inj, 'nm': nm,
                         'r1': codes(recs[0][1]), 'q1': codes(recs[0][3]),
                         'r2': codes(recs[1][1]) if nm > 1 else [], 'q2': codes(recs[1][3]) if nm > 1 else [],
                         'gen': desc, 'hdr': recs[0][0] if desc.get('stale_header') else ''}
                    e.update(obs)
                    emit(e)
        tid += 1
        emit({'ev': 'summary', 'tid': tid, 'per': [stats[k] for k in sorted(stats)]})


if __name__ == '__main__':
    main()
