"""C02 driver: records what the real strategy.demultiplex() of every registered demultiplexing strategy returns
for generated read pairs.
usage: drive_layout.py <out.ndjson> <tier> <seed> <scenarios.json> [only=<shortName>,..] [n=<pairs per branch>]
       drive_layout.py <out.ndjson> replay 0 <event.json>      re-run the recorded input of one event through the real code

Spec -> code: <scenarios.json> holds the layouts printed by TLC from spec/Layout.tla (MC_Layout_gen.cfg): the whitelist
alias, the barcode positions, the slice boundaries and the trimming rules of every strategy branch.  The generator places a
whitelist barcode at the table's positions and chooses read lengths on and around every boundary of the table.
Only drives and records: texts are recorded as sequences of character codes; Trace_Layout (TLC) recomputes every tag and
emitted slice from the layout table and judges."""
import contextlib
import io
import json
import os
import random
import sys

BASE_TAGS = ['bc', 'RX', 'RQ', 'rS', 'lh', 'lq', 'QT', 'ES', 'eq', 'IS', 'tu', 'rx']
META_TAGS = ['bi', 'BC', 'MX', 'dt', 'RR']
OLIGO = 'AGACTCTTT'
INDEX_ALIAS = 'illumina_merged_ThruPlex48S_RP'
# whitelists that are not shipped / shipped empty: a small user supplied whitelist is added through the public
# BarcodeParser.addBarcode() on a SEPARATE parser, so that those layouts are exercised too (events carry inj=1)
INJECT = {'10x_3M-february-2018': ['ACGTACGTACGTACGT', 'TTGGCCAATTGGCCAA', 'GATTACAGATTACAGA', 'CCCCAAAATTTTGGGG'],
          # the last two start with a CS2_scattered_8bp barcode: such reads match both whitelists of DamID2andT_3u4b3u6b
          'DamID2_scattered_10bp': ['TGCATATGCA', 'GTGCTGAACA', 'ACACGTGTCA', 'GATGTCATCA', 'TCTCCGAGCA']}


def codes(s):
    return [ord(c) for c in str(s)]


def build(hd, inject=False):
    import singlecellmultiomics
    from singlecellmultiomics.barcodeFileParser import barcodeFileParser
    from singlecellmultiomics.modularDemultiplexer.demultiplexingStrategyLoader import DemultiplexingStrategyLoader
    base = os.path.dirname(singlecellmultiomics.__file__)
    bp = barcodeFileParser.BarcodeParser(hammingDistanceExpansion=hd, lazyLoad=("10x_3M-february-2018",),
                                         barcodeDirectory=os.path.join(base, 'modularDemultiplexer', 'barcodes'))
    ip = barcodeFileParser.BarcodeParser(hammingDistanceExpansion=1,
                                         barcodeDirectory=os.path.join(base, 'modularDemultiplexer', 'indices'))
    if inject:
        for alias, bcs in INJECT.items():
            try:
                _ = bp[alias]          # resolves a pending (lazy) file first, as the package does
            except Exception:
                pass
            if not bp.barcodes.get(alias):
                for i, b in enumerate(bcs):
                    bp.addBarcode(alias, barcode=b, index=i)         # the first cell has index 0 (valid, falsy)
                if hd:
                    bp.expand(hd, alias=alias)
    with contextlib.redirect_stdout(io.StringIO()):
        dmx = DemultiplexingStrategyLoader(barcodeParser=bp, indexParser=ip, indexFileAlias=INDEX_ALIAS)
    return bp, ip, dmx


class Gen:
    def __init__(self, rng, bp, ip):
        self.rng, self.bp, self.ip = rng, bp, ip
        self.indices = sorted(ip.barcodes[INDEX_ALIAS].keys())
        self.lower = False
        self._amb = {}

    def bases(self, n, pn=0.04):
        r = self.rng
        s = ''.join('N' if r.random() < pn else r.choice('ACGT') for _ in range(n))
        return s.lower() if self.lower else s          # soft-masked style reads (the barcode itself stays upper case)

    def quals(self, n):
        r = self.rng
        mode = r.randrange(4)
        if mode == 0:
            return ''.join(chr(33 + r.randrange(52)) for _ in range(n))
        if mode == 1:   # extremes of the header alphabet: 0, 25, 26, 51
            return ''.join(chr(33 + r.choice([0, 1, 25, 26, 50, 51])) for _ in range(n))
        if mode == 2:   # a ramp, so that every shift of a slice is visible
            o = r.randrange(52)
            return ''.join(chr(33 + (o + i) % 52) for i in range(n))
        return ''.join(chr(33 + r.randrange(20, 42)) for _ in range(n))

    def length(self, sc, m):
        """a read length for mate m: on / next to every boundary of the table, or boundary + insert 0..150"""
        r = self.rng
        cuts = sorted(set(sc['cuts']) | {sc['ins'][m - 1], sc['need'][m - 1]})
        k = r.randrange(10)
        if k < 3:
            return max(0, r.choice(cuts) + r.choice([-1, 0, 1]))
        if k < 5:
            return sc['ins'][m - 1] + r.choice([0, 1, 2, 3, 5, 9, 10, 150])
        return sc['ins'][m - 1] + r.randrange(0, 151)

    def insert(self, sc, m, n, ctx):
        """content of the insert of mate m (length n) - plain random, or a recipe that triggers the content dependent rules"""
        r = self.rng
        s = self.bases(n)
        st = sc['strategy']
        k = r.randrange(10)
        if (sc['trim'][m - 1] == 'skipT' and (k < 7 or 'lead_T' in ctx)) or (m == 1 and ctx.get('lead_T_any_branch')):
            t = r.choice([0, 1, 2, 5, 12, n, max(0, n - 1)])
            t = {'all': n, 'all_but_last': max(0, n - 1), 'one': 1, 'five': 5}.get(ctx.get('lead_T'), t)
            t = min(t, n)
            s = 'T' * t + s[t:]
        elif st == 'CHICTV' and m == 1 and k == 9 and n >= len(OLIGO):
            ctx['oligo_on_ligation_base'] = True           # oligo at 11..19: in the read, but not in the insert (which starts at 12)
        elif st == 'CHICTV' and m == 1 and k < 9 and n >= len(OLIGO):
            p = min(r.choice([0, 1, 5, 6, 7, r.randrange(0, n)]), n - len(OLIGO))
            s = s[:p] + OLIGO + s[p + len(OLIGO):]
            if k < 2 and n >= p + 2 * len(OLIGO) + 3:     # a second copy further down
                p2 = r.randrange(p + len(OLIGO), n - len(OLIGO) + 1)
                s = s[:p2] + OLIGO + s[p2 + len(OLIGO):]
        elif st == 'TCHIC':
            cs2 = ctx.get('cs2')
            if m == 1 and (k < 5 or 'vasa_at' in ctx) and cs2 and n >= 6 + len(cs2) + 5:
                p = min(r.choice([0, 3, 6, 7, r.randrange(0, n)]), n - len(cs2) - 5)
                p = ctx.get('vasa_at', p)                  # 0: the motif opens the insert, no transcript UMI can be extracted
                motif = cs2 + 'TTTTT'
                s = s[:p] + motif + s[p + len(motif):]
                ctx['vasa'] = True
            elif m == 1 and k == 5 and n >= 23:
                s = s[:2] + 'T' * 23 + s[25:]
            elif m == 1 and k in (6, 7) and n >= 14:
                s = s[:3] + r.choice(['AGTCCGACGAT', 'GTTCTACAGT']) + s[14:]
            elif m == 2 and n >= 16:
                # trim_r2 only runs on bleed-through molecules: when R1 carries the motif, give R2 something to trim most of the time
                kk = r.randrange(3) if (ctx.get('vasa') and r.random() < 0.8) else r.randrange(6)
                if kk == 0:
                    p = r.randrange(0, n - 10)
                    s = s[:p] + 'A' * 10 + s[p + 10:]
                elif kk == 1:
                    p = r.randrange(0, n - 10)
                    s = s[:p] + 'G' * 10 + s[p + 10:]
                elif kk == 2:
                    t = r.randrange(1, 9)
                    s = s[:n - t] + ''.join(r.choice('GA') for _ in range(t))
                elif kk == 3 and cs2 and n >= len(cs2) + 12:
                    from singlecellmultiomics.utils import reverse_complement
                    motif = reverse_complement(self.bases(6, 0) + cs2 + 'TTTTT')
                    p = r.randrange(0, n - len(motif) + 1)
                    s = s[:p] + motif + s[p + len(motif):]
        return s

    def boundary_lengths(self, sc, m):
        """every length on / next to a slice boundary of the table at which mate m can still carry its barcode pieces"""
        cuts = set(sc['cuts']) | {sc['ins'][m - 1], sc['need'][m - 1]}
        return sorted({c + d for c in cuts for d in (-1, 0, 1) if c + d >= max(0, sc['need'][m - 1])})

    def header(self, kind, tid, m, index):
        """input header variants TaggedRecord.fromRawFastq knows: 11-field Illumina with a whitelisted / numeric / unknown
        sequencing index, 10-field (no index), 7-field, 3-DEC"""
        lane, x, y = 1 + tid % 4, 1000 + tid % 30000, 1000 + tid // 7
        if kind == 'numeric_index':
            return '@NS500414:628:H7YVNBGXC:%d:11101:%d:%d %d:N:0:%d' % (lane, x, y, m, 1 + tid % 9)
        if kind == 'unknown_index':
            return '@NS500414:628:H7YVNBGXC:%d:11101:%d:%d %d:N:0:GGGGGGGGGGGG' % (lane, x, y, m)
        if kind == 'no_index':
            return '@NS500414:628:H7YVNBGXC:%d:11101:%d:%d %d:N:0::' % (lane, x, y, m)
        if kind == 'seven_field':
            return '@NS500414:628:H7YVNBGXC:%d:11101:%d:%d' % (lane, x, y)
        if kind == 'three_dec':
            return '@Cluster_s_%d_%d_%d' % (lane, 1101 + tid % 50, m)
        return '@NS500414:628:H7YVNBGXC:%d:11101:%d:%d %d:N:0:%s' % (lane, x, y, m, index)

    def ambiguous(self, st):
        """inputs that BOTH sub-demultiplexers of a DamID+transcriptome strategy accept (looked up in the real parser):
        DamAndT -> 11-mers X for R1[3:14] with X[0:10] a DamID2 barcode and X[3:11] a celseq2 barcode (each within the
        parser's Hamming expansion); DamID2andT_3u4b3u4b -> raw 8-mers that resolve in DamID2_scattered_8bp AND in CS2_scattered_8bp"""
        if st not in self._amb:
            look = self.bp.getIndexCorrectedBarcodeAndHammingDistance
            found = []
            if st == 'DamAndT':
                for d in sorted(self.bp.barcodes.get('DamID2', {})):
                    for c in sorted(self.bp.barcodes.get('celseq2', {})):
                        for x in (d + c[7], d[:3] + c):
                            if look(alias='DamID2', barcode=x[:10])[0] is not None and look(alias='celseq2', barcode=x[3:11])[0] is not None:
                                found.append(x)
            elif st == 'DamID2andT_3u4b3u4b':
                # the two whitelists are disjoint: only a RAW barcode one mismatch away from an entry of each resolves in both
                for d in sorted(self.bp.barcodes.get('DamID2_scattered_8bp', {})):
                    for p in range(len(d)):
                        for c in 'ACGT':
                            x = d[:p] + c + d[p + 1:]
                            if (look(alias='DamID2_scattered_8bp', barcode=x)[0] is not None
                                    and look(alias='CS2_scattered_8bp', barcode=x)[0] is not None):
                                found.append(x)
                found = sorted(set(found))
            self._amb[st] = found
        return self._amb[st]

    def pair(self, sc, tid, i=None, hdr_kind=None, nm_force=None, long_enough=False, ambiguous=False, force=None):
        """-> (records as 4-tuples, nm, description of the generated case); the first pairs of a scenario (i = 0, 1, ..)
        walk deterministically through the boundary lengths of mate 1, then of mate 2"""
        r = self.rng
        nm = r.choice(sorted(sc['mates']))
        b1, b2 = self.boundary_lengths(sc, 1), self.boundary_lengths(sc, 2)
        forced = [None, None]
        if i is not None and i < len(b1):
            forced[0] = b1[i]
        elif i is not None and i < len(b1) + len(b2):
            forced[1] = b2[i - len(b1)]
            nm = max(sc['mates'])
        elif r.random() < 0.04:
            nm = 3 - nm if nm in (1, 2) else nm          # a record count the table does not list (expected: not accepted)
        wl = self.bp.barcodes.get(sc['wl'], {}) if sc['wl'] else {}
        ctx = dict(force or {})
        desc = {'exact': 1, 'wl_n': len(wl)}
        barcode = ''
        if sc['bc']:
            blen = sum(hi - lo for _, lo, hi in sc['bc'])
            if wl:
                barcode = r.choice(sorted(wl.keys()))
                amb = self.ambiguous(sc['strategy']) if sc['strategy'] in ('DamAndT', 'DamID2andT_3u4b3u4b') else []
                if amb and forced == [None, None] and (ambiguous or r.random() < 0.1):
                    desc['ambiguous'] = 1
                    if sc['strategy'] == 'DamAndT':
                        ctx['segment'] = (3, r.choice(amb))
                    else:
                        barcode = r.choice(amb)
                if sc['strategy'] == 'TCHIC':
                    idx = wl[barcode]
                    for k2, v2 in (self.bp.barcodes.get('celseq2') or {}).items():
                        if v2 == idx:
                            ctx['cs2'] = k2
                if r.random() < 0.2 and forced == [None, None] and not desc.get('ambiguous'):   # one mismatch: the raw tag must keep the read's bases
                    p = r.choice([0, len(barcode) - 1, len(barcode) - 2, r.randrange(len(barcode)), r.randrange(len(barcode))])   # ends: a tag may overlap them
                    barcode = barcode[:p] + r.choice([c for c in 'ACGTN' if c != barcode[p]]) + barcode[p + 1:]
                    desc['exact'] = 0
            else:
                barcode = self.bases(blen, 0)
                desc['exact'] = 0
        lens = [self.length(sc, 1) if forced[0] is None else forced[0], self.length(sc, 2) if forced[1] is None else forced[1]]
        if long_enough:                                    # the case is about something else than the length: keep it acceptable
            lens = [max(lens[m], sc['ins'][m] + 24) for m in (0, 1)]
        if ctx.get('ins_len') is not None:                 # an insert of exactly this many bases on the trimmed mate
            lens = [sc['ins'][m] + ctx['ins_len'] if sc['trim'][m] == 'skipT' else lens[m] for m in (0, 1)]
        if nm_force is not None:
            nm = nm_force
        recs = []
        index = r.choice(self.indices)
        stale = self.stale_header(sc, tid, index) if (r.random() < 0.25 and hdr_kind is None) else None
        if hdr_kind:
            desc['hdr_kind'] = hdr_kind
        stale_on = r.choice([(1, 2), (1, 2), (1,), (2,)]) if stale else ()      # both mates, or only one of them
        desc['stale_header'] = 1 if stale else 0
        self.lower = r.random() < 0.06
        desc['lower'] = 1 if self.lower else 0
        for m in (1, 2, 3)[:nm]:
            if m == 3:                                     # a third record (never a read pair): mate 2 again under another name
                recs.append((self.header(hdr_kind, tid, 3, index),) + recs[1][1:])
                continue
            n = lens[m - 1]
            start = sc['ins'][m - 1]
            prefix = self.bases(min(n, start), 0.02)
            body = self.insert(sc, m, max(0, n - start), ctx)
            s = list(prefix + body)
            off = 0
            for (pm, lo, hi) in sc['bc']:                  # place the barcode at the table's positions
                if pm == m:
                    for j in range(lo, hi):
                        if j < len(s):
                            s[j] = barcode[off + j - lo]
                off += hi - lo
            if ctx.get('segment') and m == 1 and len(s) >= ctx['segment'][0] + len(ctx['segment'][1]):
                s[ctx['segment'][0]:ctx['segment'][0] + len(ctx['segment'][1])] = list(ctx['segment'][1])
            if ctx.get('oligo_on_ligation_base') and m == 1 and len(s) >= 11 + len(OLIGO):
                s[11:11 + len(OLIGO)] = list(OLIGO)
            s = ''.join(s)
            hdr = self.header(hdr_kind, tid, m, index)
            if stale is not None and m in stale_on:
                hdr = stale
            recs.append((hdr, s, '+', self.quals(len(s))))
        self.lower = False
        return recs, nm, desc

    def stale_header(self, sc, tid, index):
        """header of a read that went through an EARLIER demultiplexing pass (`@Is:..;RN:..;tag:value`, accepted by
        TaggedRecord.parse_scmo_header): it carries stale values for the tags the strategy is about to set - all different
        from what the bases of this read imply (bases the generator never puts at those places / other lengths)"""
        r = self.rng
        fake = {'bc': 'NNNNNNNNNNNNNNNN'[:r.choice([6, 8, 10, 16])], 'RX': 'NNNNNNNNNNNN'[:r.choice([3, 6, 8, 12])],
                'RQ': 'zzzzzzzzzzzz'[:r.choice([3, 6, 8])], 'rS': 'NNNNNNN', 'lh': 'NNN', 'lq': 'zzz', 'QT': 'zzzzzzzzz',
                'ES': 'NNNN', 'eq': 'zzzz', 'IS': 'NNNNNNNNNNNNNNNN'}
        parts = ['Is:NS500414', 'RN:628', 'Fc:H7YVNBGXC', 'La:%d' % (1 + tid % 4), 'Ti:11101', 'CX:%d' % (1000 + tid % 30000),
                 'CY:%d' % (1000 + tid // 7), 'Fi:N', 'CN:0', 'aa:%s' % index, 'aA:%s' % index, 'aI:1', 'LY:OLDLIB']
        if r.random() < 0.2:
            fake = {k: '' for k in fake}               # stale but EMPTY values
        parts += ['%s:%s' % (t, fake[t]) for t in sorted(sc.get('settags', [])) if t in fake]
        parts += ['bi:9999', 'BC:NNNNNNNN', 'MX:OLDMX']
        r.shuffle(parts)
        parts.remove('Is:NS500414')
        return '@' + ';'.join(['Is:NS500414'] + parts)


def project(res, obs):
    """copy what the code returned into the event: records as character codes (+ what asFastq() would write for them)"""
    if not isinstance(res, (list, tuple)):
        obs['shape'] = type(res).__name__
        res = [res]
    fq = []
    for o in res:
        if isinstance(o, str):         # IlluminaBaseDemultiplexer returns fastq text
            parts = o.split('\n')
            obs['out'].append({'seq': codes(parts[1]), 'qual': codes(parts[3]), 'tags': {}, 'meta': {'hdr': parts[0][:60]}})
        else:
            tags = {t: codes(o.tags[t]) for t in BASE_TAGS if t in o.tags}
            meta = {t: str(o.tags[t]) for t in META_TAGS if t in o.tags}
            obs['out'].append({'seq': codes(o.sequence), 'qual': codes(o.qualities), 'tags': tags, 'meta': meta})
            if fq is not None:
                try:                   # the other end: the text FastqHandle would write for this record, parsed back
                    parts = o.asFastq().split('\n')
                    kv = dict(x.split(':', 1) for x in parts[0][1:].split(';') if ':' in x)
                    fq.append({'seq': codes(parts[1]), 'qual': codes(parts[3]), 'tags': {t: codes(kv[t]) for t in BASE_TAGS if t in kv}})
                except Exception as ex:
                    obs['fq_raised'] = type(ex).__name__
                    fq = None
    if fq and len(fq) == len(obs['out']):
        obs['fq'] = fq
    return obs


def probe_fix(st, recs):
    """content the strategies look for when called with probe=True (auto-detection), so that such calls can be ACCEPTED too"""
    def put(s, at, motif):
        return s[:at] + motif + s[at + len(motif):] if len(s) >= at + len(motif) else s
    h, s, plus, q = recs[0]
    if st.startswith('NLAIII'):
        s = put(s, 11, 'CATG')
    elif st.startswith('scCHIC'):
        s = put(s, 11, 'T')
    elif st == 'SCARC8R2':
        s = put(s, 0, 'CCTTGAACTTCTGGTTGTAG')
    elif st == 'SCARC8R2R4':
        s = put(s, 4, 'CCTTGAACTTCTGGTTGTAG')
    return [(h, s, plus, q)] + list(recs[1:])


def observe(strategy, recs, FastqRecord, NonMultiplexable, call=None):
    """call: {'library': str, 'probe': None|False|True|'omit'} - the keyword arguments of this call"""
    records = tuple(FastqRecord(*x) for x in recs)
    obs = {'acc': False, 'raised': '', 'out': [], 'shape': ''}
    call = call or {'library': 'LIB', 'probe': None}
    kw = {'library': call['library']}
    if call['probe'] != 'omit':
        kw['probe'] = call['probe']
    try:
        res = strategy.demultiplex(records, **kw)
    except NonMultiplexable:
        obs['raised'] = 'NonMultiplexable'
        return obs
    except Exception as ex:            # a crash of the code under test is an observation
        obs['raised'] = type(ex).__name__
        return obs
    obs['acc'] = True
    return project(res, obs)


def event(tid, st, branch, inj, recs, nm, desc, call, via):
    return {'ev': 'demux', 'tid': tid, 's': st, 'branch': branch, 'inj': inj, 'nm': nm, 'via': via,
            'r1': codes(recs[0][1]), 'q1': codes(recs[0][3]),
            'r2': codes(recs[1][1]) if nm > 1 else [], 'q2': codes(recs[1][3]) if nm > 1 else [],   # (a third record repeats mate 2)
            'gen': desc, 'hdrs': [x[0] for x in recs], 'call': {'library': call['library'], 'probe': str(call['probe'])}}


def pick_call(rng):
    """keyword arguments of a call: mostly the loader's own shape; also probe omitted / False / True (auto-detection) and an empty library name"""
    k = rng.randrange(20)
    probe = None if k < 12 else ('omit' if k < 14 else (False if k < 16 else True))
    return {'library': '' if rng.random() < 0.05 else 'LIB', 'probe': probe}


def replay(out, path):
    from singlecellmultiomics.fastqProcessing.fastqIterator import FastqRecord
    from singlecellmultiomics.modularDemultiplexer.baseDemultiplexMethods import NonMultiplexable
    with open(path) as f:
        ev = json.load(f)
    bp, ip, dmx = build(1, inject=bool(ev.get('inj')))
    strategies = {s.shortName: s for s in dmx.demultiplexingStrategies}
    index = sorted(ip.barcodes[INDEX_ALIAS].keys())[0]
    recs = []
    for m in (1, 2)[:ev['nm']]:
        hdr = '@NS500414:628:H7YVNBGXC:1:11101:%d:1000 %d:N:0:%s' % (1000 + ev['tid'] % 30000, m, index)
        if ev.get('hdrs'):
            hdr = ev['hdrs'][m - 1]
        recs.append((hdr, ''.join(map(chr, ev['r%d' % m])), '+', ''.join(map(chr, ev['q%d' % m]))))
    call = {'library': 'LIB', 'probe': None}
    if ev.get('call'):
        call = {'library': ev['call']['library'], 'probe': {'None': None, 'False': False, 'True': True, 'omit': 'omit'}[ev['call']['probe']]}
    e = {k: ev[k] for k in ('ev', 'tid', 's', 'branch', 'inj', 'nm', 'via', 'r1', 'q1', 'r2', 'q2', 'gen', 'hdrs', 'call') if k in ev}
    if ev['s'] in strategies:      # (cases recorded through the FASTQ files + loader path are replayed through the direct call)
        e.update(observe(strategies[ev['s']], recs, FastqRecord, NonMultiplexable, call))
    else:
        e.update({'acc': False, 'raised': 'NotRegistered', 'out': [], 'shape': ''})
    with open(out, 'w') as f:
        f.write(json.dumps(e, separators=(',', ':')) + '\n')


class Sink:
    """stands in for the FastqHandle of the loader: keeps what the loader hands over for writing"""
    def __init__(self):
        self.got = []

    def write(self, records):
        self.got.append(records)


def cluster_key(o):
    if isinstance(o, str):
        kv = dict(x.split(':', 1) for x in o.split('\n')[0][1:].split(';') if ':' in x)
        return kv.get('CX'), kv.get('CY')
    return str(o.tags.get('CX')), str(o.tags.get('CY'))


def via_files(dmx, strategy, pairs, nm, variant, workdir):
    """write the pairs as FASTQ files (plain / gz / CRLF / no final newline), run the real loader loop
    (FastqIterator + DemultiplexingStrategyLoader.demultiplex) with a collecting sink -> {(CX,CY): returned records}"""
    import gzip
    paths = []
    for m in range(nm):
        text = ''.join('\n'.join(p[m]) + '\n' for p in pairs)
        if variant == 'crlf':
            text = text.replace('\n', '\r\n')
        if variant == 'nofinalnewline':
            text = text.rstrip('\r\n')
        path = os.path.join(workdir, 'in_R%d.fastq%s' % (m + 1, '.gz' if variant == 'gz' else ''))
        with (gzip.open(path, 'wt', newline='') if variant == 'gz' else open(path, 'w', newline='')) as f:
            f.write(text)
        paths.append(path)
    sink = Sink()
    with contextlib.redirect_stdout(io.StringIO()):
        dmx.demultiplex(paths, strategies=[strategy], targetFile=sink, library='LIB')
    res = {}
    for recs in sink.got:
        seq = recs if isinstance(recs, (list, tuple)) else [recs]
        if seq:
            res[cluster_key(seq[0])] = recs
    return res


def main():
    if sys.argv[2] == 'replay':
        return replay(sys.argv[1], sys.argv[4])
    out, tier, seed, scn_path = sys.argv[1], sys.argv[2], int(sys.argv[3]), sys.argv[4]
    only = None
    per = None
    for a in sys.argv[5:]:
        if a.startswith('only='):
            only = a[5:].split(',')
        if a.startswith('n='):
            per = int(a[2:])
    with open(scn_path) as f:
        scenarios = json.load(f)
    from singlecellmultiomics.fastqProcessing.fastqIterator import FastqRecord
    from singlecellmultiomics.modularDemultiplexer.baseDemultiplexMethods import NonMultiplexable
    n_per = per if per is not None else (30 if tier == 'quick' else 1000)
    n_cross = (n_per * 2) if tier == 'quick' else n_per // 2
    n_file = 6 if tier == 'quick' else 40
    tid = 0
    stats = {}
    loaders = {}
    with open(out, 'w') as f:
        def emit(e):
            f.write(json.dumps(e, separators=(',', ':')) + '\n')

        # 1. every strategy branch on its own inputs (direct calls, keyword-argument variants)
        for inj in (0, 1):
            bp, ip, dmx = build(1, inject=bool(inj))
            loaders[inj] = (bp, ip, dmx)
            rng = random.Random(seed * 2 + inj)
            gen = Gen(rng, bp, ip)
            strategies = {s.shortName: s for s in dmx.demultiplexingStrategies}
            if not inj:
                tid += 1
                emit({'ev': 'registry', 'tid': tid, 'strategies': [s.shortName for s in dmx.demultiplexingStrategies],
                      'classes': [type(s).__name__ for s in dmx.demultiplexingStrategies]})
            for sc in scenarios:
                st = sc['strategy']
                if st not in strategies or (only and st not in only):
                    continue
                shipped = len(bp.barcodes.get(sc['wl'], {})) if sc['wl'] else -1
                if inj and sc['wl'] not in INJECT:
                    continue
                key = '%s/%d/%d' % (st, sc['branch'], inj)
                stats[key] = {'s': st, 'branch': sc['branch'], 'inj': inj, 'wl': sc['wl'], 'wl_n': shipped, 'attempts': 0, 'accepted': 0}
                n = n_per if (shipped != 0) else max(5, n_per // 10)
                blen0 = len(gen.boundary_lengths(sc, 1)) + len(gen.boundary_lengths(sc, 2))
                if shipped != 0 and (sc['rel'] or sc['trim'] != ['none', 'none']):
                    n = max(n, blen0 + 30)                 # the content recipes need random (long) inserts after the boundary walk
                for i in range(n):
                    tid += 1
                    recs, nm, desc = gen.pair(sc, tid, i)
                    blen = len(gen.boundary_lengths(sc, 1)) + len(gen.boundary_lengths(sc, 2))
                    call = pick_call(rng) if i >= blen else {'library': 'LIB', 'probe': None}
                    obs = observe(strategies[st], recs, FastqRecord, NonMultiplexable, call)
                    stats[key]['attempts'] += 1
                    stats[key]['accepted'] += 1 if obs['acc'] else 0
                    e = event(tid, st, sc['branch'], inj, recs, nm, desc, call, 'direct')
                    e.update(obs)
                    emit(e)

            # 1b. one deterministic case per input/call class for every branch (long enough reads, exact barcode position)
            extras = [('hdr', 'numeric_index'), ('hdr', 'three_dec'), ('hdr', 'no_index'), ('hdr', 'seven_field'), ('hdr', 'unknown_index'),
                      ('three_records', None), ('unlisted_count', None), ('probe_true_fixed', None), ('probe_true', None),
                      ('probe_false', None), ('probe_omit', None), ('empty_library', None), ('ambiguous', None), ('vasa_at_0', None), ('vasa_at_4', None),
                      ('lead_T_all', None), ('lead_T_all_but_last', None), ('lead_T_one', None), ('lead_T_all_len1', None), ('lead_T_all_len2', None),
                      # a pair BOTH sub-demultiplexers accept (reported Ambiguous, DamID layout) whose insert starts with T / is all T
                      ('ambiguous_T_one', None), ('ambiguous_T_five', None), ('ambiguous_T_all', None)]
            for sc in scenarios:
                st = sc['strategy']
                if st not in strategies or (only and st not in only) or (inj and sc['wl'] not in INJECT):
                    continue
                if not inj and sc['wl'] and not bp.barcodes.get(sc['wl']):
                    continue
                for kind, arg in extras:
                    call = {'library': '' if kind == 'empty_library' else 'LIB',
                            'probe': {'probe_true_fixed': True, 'probe_true': True, 'probe_false': False, 'probe_omit': 'omit'}.get(kind)}
                    nm_force = None
                    if kind == 'three_records':
                        if st == 'ILLU':
                            continue                       # the bulk strategy takes any number of records; not a read pair
                        nm_force = 3
                    if kind == 'unlisted_count':
                        other = [c for c in (1, 2) if c not in sc['mates']]
                        if not other:
                            continue
                        nm_force = other[0]
                    tid += 1
                    if kind.startswith('ambiguous') and st not in ('DamAndT', 'DamID2andT_3u4b3u4b'):
                        continue
                    if kind.startswith('vasa_at') and st != 'TCHIC':
                        continue
                    force = {'vasa_at': int(kind[-1])} if kind.startswith('vasa_at') else None
                    if kind.startswith('ambiguous_T'):
                        force = {'lead_T': kind.split('_')[-1], 'lead_T_any_branch': True}
                    if kind.startswith('lead_T'):
                        if 'skipT' not in sc['trim']:
                            continue
                        force = {'lead_T': kind[7:].split('_len')[0], 'ins_len': int(kind[-1]) if '_len' in kind else None}
                    recs, nm, desc = gen.pair(sc, tid, hdr_kind=arg, nm_force=nm_force, long_enough=True, ambiguous=kind.startswith('ambiguous'),
                                              force=force)
                    if kind == 'probe_true_fixed':
                        recs = probe_fix(st, recs)
                    desc['case'] = kind if arg is None else arg
                    obs = observe(strategies[st], recs, FastqRecord, NonMultiplexable, call)
                    e = event(tid, st, sc['branch'], inj, recs, nm, desc, call, 'direct')
                    e.update(obs)
                    emit(e)

        # 2. the loader's shape: the SAME records go through every registered strategy in turn (strategies interleaved,
        #    instances of the first loader re-used after a second loader was built); whoever accepts is judged by its own layout
        bp, ip, dmx = loaders[0]
        rng = random.Random(seed * 2 + 11)
        gen = Gen(rng, bp, ip)
        usable = [sc for sc in scenarios if sc['strategy'] in {s.shortName for s in dmx.demultiplexingStrategies}
                  and (not only or sc['strategy'] in only) and (not sc['wl'] or bp.barcodes.get(sc['wl']))]
        call = {'library': 'LIB', 'probe': None}
        for _ in range(n_cross if usable else 0):
            sc = rng.choice(usable)
            tid += 1
            # a stale header may only carry what EVERY strategy that can see this pair overwrites: the raw barcode
            recs, nm, desc = gen.pair(dict(sc, settags=['bc'] if sc['bc'] else []), tid)
            for strategy in dmx.demultiplexingStrategies:
                obs = observe(strategy, recs, FastqRecord, NonMultiplexable, call)
                if obs['acc'] or strategy.shortName == sc['strategy']:
                    tid += 1
                    e = event(tid, strategy.shortName, sc['branch'] if strategy.shortName == sc['strategy'] else 0, 0, recs, nm, desc,
                              call, 'cross:' + sc['strategy'])
                    e.update(obs)
                    emit(e)

        # 3. the file path: FASTQ files (plain, gz, CRLF, no final newline) -> FastqIterator -> loader loop -> sink
        variants = ['plain', 'gz', 'crlf', 'nofinalnewline']
        workdir = os.path.join(os.getcwd(), 'layout_files')
        os.makedirs(workdir, exist_ok=True)
        strategies = {s.shortName: s for s in dmx.demultiplexingStrategies}
        for k, sc in enumerate(usable):
            variant = variants[(k + seed) % len(variants)]
            for nm_want in sorted(sc['mates']):
                pairs, meta = [], []
                guard = 0
                while len(pairs) < n_file and guard < n_file * 20:
                    guard += 1
                    tid += 1
                    recs, nm, desc = gen.pair(sc, tid)
                    if nm != nm_want:
                        continue       # one file set = one record count
                    pairs.append(recs)
                    meta.append((tid, desc))
                if not pairs:
                    continue
                got = via_files(dmx, strategies[sc['strategy']], pairs, nm_want, variant, workdir)
                for recs, (ptid, desc) in zip(pairs, meta):
                    res = got.get((str(1000 + ptid % 30000), str(1000 + ptid // 7)))     # cluster coordinates written by Gen.pair
                    e = event(ptid, sc['strategy'], sc['branch'], 0, recs, nm_want, desc, call, 'files:' + variant)
                    obs = {'acc': res is not None, 'raised': '', 'out': [], 'shape': ''}
                    if res is not None:
                        project(res, obs)
                    e.update(obs)
                    emit(e)
        tid += 1
        emit({'ev': 'summary', 'tid': tid, 'per': [stats[k] for k in sorted(stats)]})


if __name__ == '__main__':
    main()
