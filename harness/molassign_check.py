"""Shared part of checks/C06.py and checks/C07.py (module MolAssign): parallel model-checking runs, scenario
generation, driver + trace validation, labelling of rejects (key_fn), binding self-tests, replay.
No judgement here: every verdict is a @@REJECT printed by Trace_MolAssign.tla or a TLC invariant."""
import concurrent.futures
import json
import os

import vlib

MODULE = 'MolAssign'
TRACE = 'Trace_MolAssign'
ALL_TAKE = ['AddToMolecule', 'NewMolecule', 'SkipCheck', 'FinalFlush']


def cfgname(name):
    return 'MC_MolAssign_%s.cfg' % name


def run_mcs(check, design, negative, workers=4, par=4):
    """design: [(cfg, actions_required)], negative: [(cfg, expect_inv)].  Runs them in parallel threads (each TLC with
    `workers` workers) and folds the results into the Check in a fixed order."""
    vlib.scratch()
    jobs = []
    with concurrent.futures.ThreadPoolExecutor(max_workers=par) as ex:
        for name, req in design:
            jobs.append(('design', name, ex.submit(vlib.mc, MODULE, cfgname(name), expect='pass', workers=workers,
                                                   actions_required=req, timeout=1500)))
        for name, inv in negative:
            jobs.append(('negative_control', name, ex.submit(vlib.mc, MODULE, cfgname(name), expect='fail', expect_inv=inv,
                                                             workers=workers, timeout=900)))
        covered = set()
        for kind, name, fut in jobs:
            r = fut.result()          # MachineryError propagates: exit 2
            check.add_mc(r, kind)
            if kind == 'design':
                covered |= {a for a, n in (r.get('coverage') or {}).items() if n > 0}
    return covered


def gen_scenarios(names, path, simulate=None, limit=None):
    scns = []
    for name in names:
        r = vlib.scenarios(MODULE, cfgname(name), timeout=900, simulate=simulate, limit=limit)
        scns += r['scenarios']
    with open(path, 'w') as f:
        json.dump(scns, f)
    return len(scns)


# ------------------------------------------------------------------------------------------------
# labels for rejects (signature of the failing case; labelling only)

def key_c06(ev, clause):
    c = clause.split(' ')[0]
    if ev['ev'] == 'probe':
        return '%s|plain|bare_items_with_input_filter' % c
    shape = 'other'
    F = ev['frags']
    if 'OnePrimary' in c:
        rounds = ev['rounds'][1:] if 'round2' in c else ev['rounds'][:1]
        for rnd in rounds:
            for m in rnd:
                dups = [all(r['dup']) for r in m['recs']]
                if all(dups) and F[m['recs'][0]['id'] - 1]['dup']:
                    shape = 'rank0_input_flag_kept'
                elif sum(1 for d in dups if not d) > 1 and shape == 'other':
                    shape = 'several_primaries'
    elif 'Homogeneous' in c:
        for m in ev['rounds'][0]:
            if len(set(F[r['id'] - 1]['contig'] for r in m['recs'])) > 1:
                shape = 'molecule_spans_contigs'
    elif 'Reuse' in c:
        shape = 'reused_iterator'
    elif 'UnderEjection' in c:
        shape = 'check_eject_every=0'
    else:
        shape = 'hd=%d,radius%s0,cap%s0' % (ev['hd'], '>' if ev['radius'] else '=', '>' if ev['cap'] else '=')
    return '%s|%s|%s' % (c, ev['kind'], shape)


def key_c07(ev, clause):
    parts = clause.split(' ')
    c = parts[0]
    pooling = [p for p in parts if p.startswith('pooling=')]
    contigs = len(set(f['contig'] for f in ev['frags']))
    bucket = 'one_bucket' if (pooling == ['pooling=0'] or ev['kind'] == 'plain' or (ev['kind'] == 'chic' and ev['radius'] > 0)) else 'hash_buckets'
    return '%s|%s|%s|%s%s' % (c, ev['kind'], bucket, 'multi_contig' if contigs > 1 else 'one_contig', '|reused_iterator' if 'reuse' in parts else '')


def what_fn(ev, clause):
    if ev['ev'] == 'probe':
        return '%s: %s' % (clause, json.dumps(ev))
    if ev['ev'] == 'sched':
        parts = clause.split(' ')
        sel = {p.split('=')[0]: int(p.split('=')[1]) for p in parts[1:] if '=' in p}
        run = [r for r in ev['runs'] if r['sched'] == sel.get('sched') and r['pooling'] == sel.get('pooling') and bool(r.get('reuse')) == ('reuse' in parts)]
        ref = [r for r in ev['runs'] if r['sched'] == -1 and r['pooling'] == sel.get('pooling')]
        return '%s: %s hd=%d radius=%d cache=%d, %d fragments; groups %s vs never-eject %s' % (
            clause, ev['kind'], ev['hd'], ev['radius'], ev['cache'], len(ev['frags']),
            sorted(sorted(m['ids']) for m in run[0]['emits']) if run else '?',
            sorted(sorted(m['ids']) for m in ref[0]['emits']) if ref else '?')
    return '%s: %s hd=%d radius=%d cap=%d pooling=%d, %d fragments, input dup flags %s' % (
        clause, ev['kind'], ev['hd'], ev['radius'], ev['cap'], ev['pooling'], len(ev['frags']),
        ''.join('1' if f['dup'] else '0' for f in ev['frags'])[:60])


def n_executions(events):
    n = 0
    for e in events:
        n += len(e['runs']) if e['ev'] == 'sched' else len(e.get('rounds', [0])) + (2 if 'reuse' in e else 0)
    return n


def conformance(check, mode, tier, key_fn, scenario_file=None):
    trace = os.path.join(vlib.scratch(), 'molassign_%s.ndjson' % mode)
    args = [trace, tier, check.seed, mode] + ([scenario_file] if scenario_file else [])
    vlib.run_driver('drive_molassign.py', args, timeout=3000)
    events = vlib.read_ndjson(trace)
    r = vlib.validate_trace(TRACE, trace, n_events=len(events), timeout=3000)
    bad = set(rej['line'] for rej in r['rejects'])
    # traces = executions (runs of the real iterator) whose observations TLC accepted
    ok_exec = sum((len(e['runs']) if e['ev'] == 'sched' else len(e.get('rounds', [0])) + (2 if 'reuse' in e else 0)) for i, e in enumerate(events, 1) if i not in bad)
    check.add_trace_result(r, events, key_fn, what_fn=what_fn, n_traces=ok_exec + len(bad))
    return events, r


def replay(pid, path):
    with open(path) as f:
        rp = json.load(f)
    ev = rp['case']['event']
    evf = os.path.join(vlib.scratch(), 'replay_event.json')
    with open(evf, 'w') as f:
        json.dump(ev, f)
    out = os.path.join(vlib.scratch(), 'replay.ndjson')
    vlib.run_driver('drive_molassign.py', [out, 'quick', rp.get('seed', 0), 'replay', evf])
    r = vlib.validate_trace(TRACE, out)
    if r['rejects']:
        for rej in r['rejects']:
            print('  %s' % rej['clause'])
        print('VIOLATION property=%s replay=%s' % (pid, path))
        return 1
    print('replay: accepted')
    return 0
