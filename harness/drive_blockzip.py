"""X01 driver: random write sequences + lookup histories through the real utils.BlockZip."""
import json, os, random, sys, tempfile


def main():
    out, tier, seed = sys.argv[1], sys.argv[2], int(sys.argv[3])
    rng = random.Random(seed)
    from singlecellmultiomics.utils import BlockZip
    n = 300 if tier == 'quick' else 5000
    tmp = tempfile.mkdtemp(prefix='bz_', dir=os.getcwd())
    path = os.path.join(tmp, 't.bgzf')
    with open(out, 'w') as f:
        for tid in range(1, n + 1):
            contigs = ['chr%d' % i for i in range(rng.randint(1, 4))]
            mixed = rng.random() < 0.1
            writes = []
            order = contigs[:]
            rng.shuffle(order)
            for c in order:
                ps = sorted(rng.randint(0, 30) for _ in range(rng.randint(0, 6)))
                for p in ps:
                    writes.append({'c': c, 'p': p, 's': rng.random() < 0.5, 'd': rng.choice(['a', 'b', 'zz', '1\t2'])})
            if mixed:
                rng.shuffle(writes)
            with BlockZip(path, 'w') as h:
                for w in writes:
                    h.write(w['c'], w['p'], w['s'], w['d'])
            read_all = rng.random() < 0.3
            gets = []
            h = BlockZip(path, 'r', read_all=read_all)
            for _ in range(rng.randint(1, 12)):
                if writes and rng.random() < 0.6:
                    w = rng.choice(writes)
                    c, p, s = w['c'], w['p'] + rng.choice([0, 0, 0, 1, -1]), w['s'] if rng.random() < 0.8 else not w['s']
                else:
                    c, p, s = rng.choice(contigs + ['chrUn']), rng.randint(0, 31), rng.random() < 0.5
                a = h[(c, p, s)]
                gets.append({'c': c, 'p': p, 's': s, 'a': 'none' if a is None else a})
            if not read_all:
                h.bgzf_handle.close(); h.index_handle.close()
            f.write(json.dumps({'ev': 'history', 'tid': tid, 'read_all': read_all, 'writes': writes, 'gets': gets}) + '\n')
    for fn in os.listdir(tmp):
        os.remove(os.path.join(tmp, fn))
    os.rmdir(tmp)


if __name__ == '__main__':
    main()
