"""X05 driver: runs the real singlecellmultiomics.bamProcessing.bamExtractSamples (function extract_samples and the module's
command line) on synthetic BAM files and records raw observations.  No judgement here: spec/Trace_SampleRouting.tla decides.

argv: out.ndjson tier seed [cases.json]
  cases.json = {"scenarios": [TLC-generated scenario ...], "cases": [fully specified case ...] }   (both optional)
  tier 'replay' runs only the given cases.

A *case* is the abstract description (everything the run depends on):
  mode 'api'|'cli', via 'call'|'runpy'|'subprocess', recs [{id, sm, rg, kind}], in_rgids, asg [{gc:[chars], ss:[samples]}] (api),
  lines [{s, hasg, g:[chars]}] + seps/trails/blank (cli file layout), head (-1 None), wrg, prefix, prefix_none, stem [tokens], force
The BAM file, the sample file and the command line are derived from it.  The event = the case + what was found on disk afterwards.
"""
import gc
import hashlib
import io
import json
import os
import random
import runpy
import shutil
import subprocess
import sys
import tempfile
import warnings

import pysam

import bamgen

MODULE = 'singlecellmultiomics.bamProcessing.bamExtractSamples'
KINDS = ['primary', 'reverse', 'secondary', 'supplementary', 'unmapped', 'dup', 'qcfail', 'read1', 'read2']
CONTIGS = [('chr1', 100000), ('chr2', 5000)]


# ------------------------------------------------------------------------------------------------ input derivation
def make_input(path, case):
    extra = {}
    if case['in_rgids']:
        extra['RG'] = [{'ID': x, 'SM': 'insample', 'LB': 'lib', 'PL': 'ILLUMINA'} for x in case['in_rgids']]
    h = bamgen.make_header(case.get('contigs', CONTIGS), so='unsorted', extra=extra)
    names = [n for n, _ in case.get('contigs', CONTIGS)]
    reads = []
    for k, r in enumerate(case['recs']):
        kind = r['kind']
        tags = {'NH': 1, 'DS': 10 + k}
        if r['sm'] != '':
            tags[case.get('tagid', 'SM')] = r['sm']
        if r['rg'] != '':
            tags['RG'] = r['rg']
        kw = dict(reverse=kind == 'reverse', secondary=kind == 'secondary', supplementary=kind == 'supplementary',
                  unmapped=kind == 'unmapped', dup=kind == 'dup', qcfail=kind == 'qcfail', read1=kind == 'read1', read2=kind == 'read2',
                  paired=kind in ('read1', 'read2'))
        seq = 'ACGTTGCA'[k % 4:] + 'GATTACA'
        if 'ci' in r:            # split cases carry contig index (-1 = none), position and mapping quality in the description
            contig, pos = (names[r['ci']] if r['ci'] >= 0 else None), r['pos']
            if contig is None:
                kw['unmapped'] = True
            kw['mapq'] = r['mapq']
        else:
            contig, pos = ('chr2' if k % 5 == 4 else 'chr1'), 10 + 3 * k
        reads.append(bamgen.make_read(h, 'r%d' % r['id'], contig, pos, seq=seq, tags=tags, **kw))
    bamgen.write_bam(path, h, reads, sort=False, index=False)


def rec_obs(r, tag='SM'):
    name = r.query_name
    try:
        rid = int(name[1:]) if name.startswith('r') else -1
    except ValueError:
        rid = -1
    fields = r.to_string().split('\t')
    fields[2], fields[6] = str(r.reference_id), str(r.next_reference_id)      # contigs by index: the fingerprint survives a renamed header
    core, tags = fields[:11], sorted(t for t in fields[11:] if not t.startswith('RG:'))
    return {'id': rid, 'sm': str(r.get_tag(tag)) if r.has_tag(tag) else '', 'rg': r.get_tag('RG') if r.has_tag('RG') else '',
            'dg': hashlib.md5('|'.join(core + tags).encode()).hexdigest()[:12],
            'dup': bool(r.is_duplicate), 'mapq': int(r.mapping_quality), 'tid': int(r.reference_id), 'pos': int(r.reference_start)}


def bam_obs(path, tag='SM'):
    """what is on disk: header read groups, @SQ fingerprint and names, the records in file order; ok = readable to the end"""
    o = {'ok': True, 'rgids': [], 'sq': '', 'sqn': [], 'recs': []}
    try:
        with pysam.AlignmentFile(path, 'rb', check_sq=False) as f:
            hd = f.header.to_dict()
            o['rgids'] = [str(x.get('ID', '')) for x in hd.get('RG', [])]
            o['sq'] = hashlib.md5(json.dumps(hd.get('SQ', []), sort_keys=True).encode()).hexdigest()[:12]
            o['sqn'] = [[str(x.get('SN', '')), int(x.get('LN', 0))] for x in hd.get('SQ', [])]
            for r in f.fetch(until_eof=True):
                o['recs'].append(rec_obs(r, tag))
    except Exception:
        o['ok'] = False
    return o


def walk_bams(root):
    out, other = [], []
    for d, _, fs in os.walk(root):
        for fn in fs:
            rel = os.path.relpath(os.path.join(d, fn), root)
            (out if fn.endswith('.bam') else other).append(rel)
    return sorted(out), sorted(other)


# ------------------------------------------------------------------------------------------------ running the real code
class _Quiet:
    def __enter__(self):
        self.o, self.e = sys.stdout, sys.stderr
        sys.stdout = io.StringIO()
        return self

    def __exit__(self, *a):
        sys.stdout = self.o


_index_cmds = []


def _no_samtools(cmd):
    """samtools is not installed in the sandbox: the tool's `os.system('samtools index ..')` can only fail (exit 127).
    In-process runs skip the fork+exec of that failing shell; the command is kept as an observation."""
    _index_cmds.append(cmd)
    return 127 << 8


def sample_file_text(case):
    out = []
    for k, ln in enumerate(case['lines']):
        lay = case['layout'][k]
        if lay['blank']:
            out.append(['', ' ', '\t '][lay['blank'] - 1])
        text = lay['lead'] + ln['s']
        if ln['hasg']:
            text += lay['sep'] + ''.join(ln['g'])
        out.append(text + lay['trail'])
    return '\n'.join(out) + ('\n' if out and case.get('final_newline', True) else '')


def run_case(case, workdir):
    shutil.rmtree(workdir, True)
    os.makedirs(os.path.join(workdir, 'out'))
    inbam = os.path.join(workdir, 'in.bam')
    make_input(inbam, case)
    with pysam.AlignmentFile(inbam, 'rb', check_sq=False) as f:
        hd = f.header.to_dict()
        in_obs = [rec_obs(r) for r in f.fetch(until_eof=True)]
    ev = dict(case)
    ev['ev'] = 'run'
    ev['in_obs'] = in_obs
    ev['in_sq'] = hashlib.md5(json.dumps(hd.get('SQ', []), sort_keys=True).encode()).hexdigest()[:12]
    outroot = os.path.join(workdir, 'out')
    opath = os.path.join(outroot, ''.join(case['stem']) + '.bam')
    os.makedirs(os.path.dirname(opath), exist_ok=True)
    head = None if case['head'] == -1 else case['head']
    prefix = None if case['prefix_none'] else case['prefix']
    raised = ''
    del _index_cmds[:]
    if case['mode'] == 'api':
        from singlecellmultiomics.bamProcessing import bamExtractSamples as mod
        capture = {}
        for a in case['asg']:
            capture[''.join(a['gc'])] = list(a['ss'])
        real_system = os.system
        os.system = _no_samtools
        try:
            with _Quiet():
                mod.extract_samples(inbam, opath, capture, head=head, write_group_rg=case['wrg'], rg_group_prefix=prefix)
        except Exception as ex:    # a crash of the code under test is an observation
            raised = type(ex).__name__
        finally:
            os.system = real_system
    else:
        sf = os.path.join(workdir, 'samples.txt')
        with open(sf, 'w') as f:
            f.write(sample_file_text(case))
        argv = [inbam, sf, '-o', opath]
        if case.get('force'):
            argv.append('--f')
        if head is not None:
            argv += ['-head', str(head)]
        if case['wrg']:
            argv.append('--write_group_rg')
        if prefix is not None:
            argv += ['-rg_group_prefix', prefix]
        if case['via'] == 'subprocess':
            p = subprocess.run([sys.executable, '-m', MODULE] + argv, stdout=subprocess.DEVNULL, stderr=subprocess.PIPE, text=True,
                               errors='replace', cwd=workdir, timeout=300)
            if p.returncode != 0:
                last = [x for x in p.stderr.strip().splitlines() if x and not x.startswith(' ')]
                raised = (last[-1].split(':')[0].split('.')[-1].strip() if last else '') or 'exit_%d' % p.returncode
        else:
            real_system, real_argv = os.system, sys.argv
            os.system = _no_samtools
            sys.argv = ['bamExtractSamples.py'] + argv
            try:
                with _Quiet(), warnings.catch_warnings():
                    warnings.simplefilter('ignore')
                    runpy.run_module(MODULE, run_name='__main__', alter_sys=True)
            except SystemExit as ex:
                if ex.code not in (0, None):
                    raised = 'SystemExit'
            except Exception as ex:
                raised = type(ex).__name__
            finally:
                os.system, sys.argv = real_system, real_argv
    ev['raised'] = raised
    bams, other = walk_bams(outroot)
    ev['files'] = [dict(name=b, **bam_obs(os.path.join(outroot, b))) for b in bams]
    if raised and not all(x['ok'] for x in ev['files']):
        gc.collect()     # handles of an aborted run are released (and their files finished) before the directory is read
        ev['files'] = [dict(name=b, **bam_obs(os.path.join(outroot, b))) for b in bams]
    ev['other'] = other
    ev['index_cmds'] = len(_index_cmds)
    return ev


SPLIT_MODULE = 'singlecellmultiomics.bamProcessing.split_bam_by_cluster'


def annot_text(case):
    out = []
    if not case['nocol']:
        out.append('\t'.join(case['colnames']))
    for row in case['rows']:
        out.append('\t'.join([row['s'], ''.join(row['c'])] + (['extra'] if case.get('extra_col') else [])))
    return '\n'.join(out) + ('\n' if out else '')


def run_split_case(case, workdir):
    """split_bam_by_cluster.py main() in-process (runpy, sys.argv); sort and index are pysam's built-in samtools"""
    shutil.rmtree(workdir, True)
    outroot = os.path.join(workdir, 'out')
    os.makedirs(outroot)
    inbam = os.path.join(workdir, case['bname'] + '.bam')
    tag = case['tagid']
    make_input(inbam, case)
    with pysam.AlignmentFile(inbam, 'rb', check_sq=False) as f:
        hd = f.header.to_dict()
        in_obs = [rec_obs(r, tag) for r in f.fetch(until_eof=True)]
    ev = dict(case)
    ev['ev'] = 'run'
    ev['in_obs'] = in_obs
    ev['in_sqn'] = [[str(x['SN']), int(x['LN'])] for x in hd.get('SQ', [])]
    af = os.path.join(workdir, 'annot.tsv')
    with open(af, 'w') as f:
        f.write(annot_text(case))
    argv = ['-infile', inbam, '-annotfile', af, '-outdir', outroot, '-mapq', str(case['mapq'])]
    if tag != 'SM' or case.get('tagid_explicit'):
        argv += ['-tagid', tag]
    if case['nocol']:
        argv.append('--annot_no_colnames')
    if case['chr']:
        argv.append('--add_chr_prefix')
    if case['overwrite']:
        argv.append('--overwrite')
    if case['quiet']:
        argv.append('--quiet')
    raised = ''
    real_argv, real_out = sys.argv, sys.stdout
    sys.argv = ['split_bam_by_cluster.py'] + argv
    sys.stdout = io.StringIO()
    try:
        with warnings.catch_warnings():
            warnings.simplefilter('ignore')
            runpy.run_module(SPLIT_MODULE, run_name='__main__', alter_sys=True)
    except SystemExit as ex:
        if ex.code not in (0, None):
            raised = 'SystemExit'
    except Exception as ex:
        raised = type(ex).__name__
    finally:
        sys.argv, sys.stdout = real_argv, real_out
    ev['raised'] = raised
    bams, other = walk_bams(outroot)
    ev['files'] = [dict(name=b, **bam_obs(os.path.join(outroot, b), tag)) for b in bams]
    if raised and not all(x['ok'] for x in ev['files']):
        gc.collect()
        ev['files'] = [dict(name=b, **bam_obs(os.path.join(outroot, b), tag)) for b in bams]
    ev['other'] = other
    return ev


# ------------------------------------------------------------------------------------------------ cases
SPLIT_CLUSTERS = ['g', 'h', 'c1', 'cl.2', 'A-b', 'x_y', '0']
SPLIT_CONTIGS = [[('1', 100000), ('2', 5000)], [('chr1', 100000), ('chrM', 5000)], [('1', 100000), ('2', 5000), ('MT', 300)]]


def split_complete(case, rng):
    case.setdefault('via', 'runpy')
    case.setdefault('in_rgids', ['old'])
    case.setdefault('bname', 'in')
    case.setdefault('tagid', 'SM')
    case.setdefault('colnames', ['cell', 'cluster'])
    case.setdefault('contigs', [list(x) for x in SPLIT_CONTIGS[0]])
    case.setdefault('mapq', 40)
    case.setdefault('overwrite', False)
    case.setdefault('quiet', True)
    case['contigs'] = [tuple(x) for x in case['contigs']]
    return case


def split_from_scenario(s, rng):
    """TLC scenario of Mode = "split": records [sm, dup, lowq, pos], rows [s, c], nocol, chr"""
    recs = []
    for i, r in enumerate(s['recs']):
        recs.append({'id': i + 1, 'sm': r['sm'], 'rg': 'old', 'kind': 'dup' if r['dup'] else rng.choice(['primary', 'reverse', 'read1']),
                     'dup': bool(r['dup']), 'mapq': 5 if r['lowq'] else 60, 'ci': 0, 'pos': 100 * r['pos']})
    case = {'src': 'scenario', 'mode': 'split', 'recs': recs, 'rows': [{'s': x['s'], 'c': list(x['c'])} for x in s['rows']],
            'nocol': bool(s['nocol']), 'chr': bool(s['chr'])}
    return split_complete(case, rng)


def random_split_case(rng, big=False):
    nrec = rng.choice([0, 1, 2, 3, 5, 8, 13, 21, 34] + ([60, 120] if big else []))
    pool = rng.sample(SAMPLES, rng.randint(2, len(SAMPLES)))
    contigs = rng.choice(SPLIT_CONTIGS)
    sorted_input = rng.random() < 0.5
    coords = [(rng.randrange(len(contigs)), rng.choice([0, 7, 50, 50, 51, 200, 299])) for _ in range(nrec)]
    if sorted_input:
        coords.sort()
    ids = list(range(1, nrec + 1))
    if rng.random() < 0.3:
        rng.shuffle(ids)
    in_rgids = rng.choice([['old'], ['old', 'other'], []])
    mapq = rng.choice([0, 10, 40, 60])
    recs = []
    for i, (ci, pos) in zip(ids, coords):
        kind = rng.choice(['dup', 'reverse', 'secondary', 'supplementary', 'qcfail', 'read1', 'read2'] + ['primary'] * 7)
        if rng.random() < 0.06:
            ci = -1                       # no contig at all: sorted to the end
        recs.append({'id': i, 'sm': '' if rng.random() < 0.1 else rng.choice(pool), 'rg': rng.choice(in_rgids + ['']) if in_rgids else '',
                     'kind': kind, 'dup': kind == 'dup', 'mapq': rng.choice([0, 5, 39, 40, 41, 60]), 'ci': ci, 'pos': pos})
    if not sorted_input and rng.random() < 0.5:
        recs.sort(key=lambda r: (r['ci'] < 0, r['ci'], r['pos']))        # sorted with the unplaced records last, like a real file
    clusters = rng.sample(SPLIT_CLUSTERS, rng.choice([1, 1, 2, 2, 3, 4]))
    rows = []
    for smp in pool + (['Missing'] if rng.random() < 0.1 else []) + (['never_seen'] if rng.random() < 0.3 else []):
        if rng.random() < 0.75:
            rows.append({'s': smp, 'c': list(rng.choice(clusters))})
    if rows and rng.random() < 0.12:      # a sample on two lines: refused
        x = dict(rng.choice(rows))
        if rng.random() < 0.5:
            x['c'] = list(rng.choice(clusters))
        rows.insert(rng.randint(0, len(rows)), x)
    rng.shuffle(rows)
    case = {'src': 'random', 'mode': 'split', 'recs': recs, 'in_rgids': in_rgids, 'rows': rows, 'nocol': rng.random() < 0.4,
            'chr': rng.random() < 0.4, 'mapq': mapq, 'contigs': [list(x) for x in contigs], 'bname': rng.choice(['in', 'in', 'lib.1', 'a_b']),
            'tagid': rng.choice(['SM', 'SM', 'SM', 'XC']), 'tagid_explicit': rng.random() < 0.3, 'extra_col': rng.random() < 0.2,
            'overwrite': rng.random() < 0.3, 'quiet': rng.random() < 0.8,
            'colnames': rng.choice([['cell', 'cluster'], ['a', 'g'], ['', '']])}
    return split_complete(case, rng)


SAMPLES = ['a', 'b', 'c', 'cellA_1', 'lib.2', 's-3']
API_GROUPS = ['g', 'h', '', 'grp1', 'cl.2', 'A-b', 'x_y']
RAW_GROUPS = ['g', 'h', 'grp1', 'cl.2', 'my group', "it's", 'a/b', 'g\th', 'g/', "'", 'x  y', 'A-b', '(g)', 'h.']
STEMS = [['out'], ['out'], ['out'], ['x', '.bam', 'y'], ['a.b'], ['sub/', 'out'], ['x', '.bam', '.d/', 'out'], ['pre_']]


def layout(rng, lines, plain=False):
    lay = []
    for ln in lines:
        lay.append({'blank': 0 if plain or rng.random() > 0.1 else rng.randint(1, 3),      # 1 empty line, 2 / 3 whitespace-only line before
                    'lead': '' if plain or rng.random() > 0.1 else ' ',
                    'sep': '\t' if plain else rng.choice(['\t', '\t', ' ', '  ', '\t ', ' \t']),
                    'trail': '' if plain or rng.random() > 0.2 else rng.choice([' ', '\t', '  '])})
    return lay


def complete(case, rng):
    case.setdefault('via', 'call' if case['mode'] == 'api' else 'runpy')
    case.setdefault('asg', [])
    case.setdefault('lines', [])
    case.setdefault('in_rgids', ['old'])
    case.setdefault('prefix_none', case['prefix'] == '')
    case.setdefault('force', False)
    if case['mode'] == 'cli' and 'layout' not in case:
        case['layout'] = layout(rng, case['lines'])
    return case


def from_scenario(s, rng):
    """a TLC-generated scenario (spec constants are small: samples a,b,c; groups g,h) -> a case"""
    kinds = KINDS if rng.random() < 0.5 else ['primary']
    case = {'src': 'scenario', 'mode': s['mode'],
            'recs': [{'id': i + 1, 'sm': sm, 'rg': 'old', 'kind': rng.choice(kinds)} for i, sm in enumerate(s['sms'])],
            'asg': [{'gc': list(a['g']), 'ss': list(a['ss'])} for a in s['asg']] if s['mode'] == 'api' else [],
            'lines': [{'s': x['s'], 'hasg': bool(x['hasg']), 'g': list(x['g'])} for x in s['lines']] if s['mode'] == 'cli' else [],
            'head': s['head'], 'wrg': bool(s['wrg']), 'prefix': s['prefix'], 'stem': list(s['stem'])}
    return complete(case, rng)


def random_case(rng, mode, big=False):
    nrec = rng.choice([0, 1, 2, 3, 5, 8, 13, 21, 34] + ([60, 120] if big else []))
    pool = rng.sample(SAMPLES, rng.randint(2, len(SAMPLES)))
    ids = list(range(1, nrec + 1))
    if rng.random() < 0.3:
        rng.shuffle(ids)                      # record names are not in file order
    with_rg = rng.random() < 0.8
    in_rgids = rng.choice([['old'], ['old', 'other'], []]) if with_rg else []
    recs = []
    for i in ids:
        sm = '' if rng.random() < 0.08 else rng.choice(pool)
        recs.append({'id': i, 'sm': sm, 'rg': rng.choice(in_rgids + ['']) if in_rgids else '', 'kind': rng.choice(KINDS + ['primary'] * 6)})
    case = {'src': 'random', 'mode': mode, 'recs': recs, 'in_rgids': in_rgids}
    ng = rng.choice([0, 1, 1, 2, 2, 3, 4])
    members = {}
    if mode == 'api':
        names = rng.sample(API_GROUPS, ng)
        free = list(pool)
        rng.shuffle(free)
        for g in names:
            k = rng.randint(0, min(3, len(free)))
            members[g] = [free.pop() for _ in range(k)]
        if names and rng.random() < 0.2:      # a sample twice in the list of ONE group
            g = rng.choice(names)
            if members[g]:
                members[g].insert(rng.randint(0, len(members[g])), rng.choice(members[g]))
        if len(names) > 1 and rng.random() < 0.15:      # a sample in TWO groups
            g1, g2 = rng.sample(names, 2)
            if members[g1]:
                members[g2].append(rng.choice(members[g1]))
        if names and rng.random() < 0.03:
            names[0] = names[0] + '/x'           # outside the precondition (not a clean file name): noted
            members[names[0]] = members.pop(names[0][:-2])
        case['asg'] = [{'gc': list(g), 'ss': members[g]} for g in names]
    else:
        raws = rng.sample(RAW_GROUPS, ng)
        lines = []
        for s in pool:
            if rng.random() < 0.7:
                if raws and rng.random() < 0.85:
                    lines.append({'s': s, 'hasg': True, 'g': list(rng.choice(raws))})
                else:
                    lines.append({'s': s, 'hasg': False, 'g': []})
        if lines and rng.random() < 0.25:     # same line twice / same sample under a spelling that cleans to the same group
            lines.insert(rng.randint(0, len(lines)), dict(rng.choice(lines)))
        if lines and len(raws) > 1 and rng.random() < 0.15:    # same sample with another group
            x = dict(rng.choice(lines))
            x['hasg'], x['g'] = True, list(rng.choice(raws))
            lines.append(x)
        rng.shuffle(lines)
        case['lines'] = lines
        case['force'] = rng.random() < 0.3
        case['final_newline'] = rng.random() < 0.9
    nsel = sum(1 for r in recs if r['sm'] in {s for v in members.values() for s in v} | {ln['s'] for ln in case.get('lines', [])})
    case['head'] = rng.choice([-1, -1, -1, 0, 1, 2, 3, 5, max(nsel - 1, 0), nsel, nsel + 1, 1000])
    case['wrg'] = rng.random() < 0.4
    case['prefix'] = rng.choice(['', '', 'P_', 'grp.']) if case['wrg'] or rng.random() < 0.1 else ''
    case['prefix_none'] = case['prefix'] == '' and rng.random() < 0.7
    case['stem'] = list(rng.choice(STEMS))
    return complete(case, rng)


def main():
    out, tier, seed = sys.argv[1], sys.argv[2], int(sys.argv[3])
    given = {}
    if len(sys.argv) > 4:
        with open(sys.argv[4]) as f:
            given = json.load(f)
    rng = random.Random(seed)
    cases = [split_complete(dict(c), rng) if c['mode'] == 'split' else complete(dict(c), rng) for c in given.get('cases', [])]
    for s in given.get('scenarios', []):
        cases.append(split_from_scenario(s, rng) if s['mode'] == 'split' else from_scenario(s, rng))
    if tier != 'replay':
        n_api, n_cli, n_sub = (500, 350, 2) if tier == 'quick' else (6000, 4000, 20)
        for k in range(n_api):
            cases.append(random_case(rng, 'api', big=tier != 'quick' and k % 10 == 0))
        for k in range(n_cli):
            cases.append(random_case(rng, 'cli'))
        for k in range(n_sub):                 # the same command line as a real child process (samtools index fails for real)
            c = random_case(rng, 'cli')
            c['via'] = 'subprocess'
            cases.append(c)
        for k in range(150 if tier == 'quick' else 2500):
            cases.append(random_split_case(rng, big=tier != 'quick' and k % 10 == 0))
        scn_cli = [c for c in cases if c['src'] == 'scenario' and c['mode'] == 'cli']
        for c in scn_cli[:n_sub]:
            c2 = json.loads(json.dumps(c))
            c2['via'] = 'subprocess'
            cases.append(c2)
    work = tempfile.mkdtemp(prefix='x05_', dir=os.path.dirname(os.path.abspath(out)))
    try:
        with open(out, 'w') as f:
            for tid, case in enumerate(cases, 1):
                ev = (run_split_case if case['mode'] == 'split' else run_case)(case, os.path.join(work, 'c'))
                ev['tid'] = tid
                f.write(json.dumps(ev, separators=(',', ':')) + '\n')
    finally:
        shutil.rmtree(work, True)


if __name__ == '__main__':
    main()
