"""C20 driver: fault enumeration against the real tagger CLI, one child process per case.
usage: drive_tagpipeline.py <out.ndjson> <tier> <seed> <scenarios.json> [<replay_case.json>]

scenarios.json: crash scenarios printed by TagPipeline!Emit (every program counter of the design model x
{exception, kill}, plus the runs that finish): {pipeline, size, prev, at, kind, job, k, tries}.
Each scenario is mapped to an injection site of tagger_hooks (table SITE below; a scenario without a site is a
machinery error), the CLI is run in a forked child, and afterwards the status file and the output are inspected.
Only raw observations are recorded; Trace_TagPipeline.tla judges.
"""
import json
import os
import random
import sys

import tagger_gen as tg
import tagger_hooks as th

CONTIG_OF_JOB = {1: '*', 2: 'chrA', 3: 'chrB'}


SHAPES = {     # input shapes of C05 for finished runs (no fault): the plan / idxstats side of completeness
    'unmapped_only_contigs': {'contigs': [{'name': 'sU', 'len': 2500, 'big': False, 'kinds': ['orphan_unmapped']},
                                          {'name': 'bigU', 'len': 250_000, 'big': True, 'kinds': ['orphan_unmapped', 'orphan_unmapped']},
                                          {'name': 'chrA', 'len': 100_001, 'big': True, 'kinds': ['pair']}], 'star': []},
    'one_small_contig': {'contigs': [{'name': 'chr1', 'len': 250_000, 'big': True, 'kinds': ['pair']},
                                     {'name': 'chrM', 'len': 2500, 'big': False, 'kinds': ['single', 'pair']},
                                     {'name': 'chr2', 'len': 250_000, 'big': True, 'kinds': ['pair_rev']}], 'star': ['unplaced_pair']},
    'threshold_and_equal_lengths': {'contigs': [{'name': 'e1', 'len': 100_000, 'big': True, 'kinds': ['pair']},
                                                {'name': 'e2', 'len': 100_000, 'big': True, 'kinds': ['single']},
                                                {'name': 's1', 'len': 99_999, 'big': False, 'kinds': ['pair']},
                                                {'name': 's2', 'len': 99_999, 'big': False, 'kinds': ['half']}],
                                    'star': ['unplaced_single', 'unplaced_single']},
    # legal SAM reference names containing * : | = ; - only the bare '*' is the unplaced bin
    'special_contig_names': {'contigs': [{'name': 'HLA-A*01:01:01:01', 'len': 2500, 'big': False, 'kinds': ['pair', 'single']},
                                         {'name': 'HLA-B*07:02', 'len': 250_000, 'big': True, 'kinds': ['pair_rev']},
                                         {'name': 'un|k=1', 'len': 40_000, 'big': False, 'kinds': ['single']},
                                         {'name': 'chr7:alt;2', 'len': 100_000, 'big': True, 'kinds': ['pair']}],
                             'star': ['unplaced_single']},
    # C05-m1's shape: a pooled job of small contigs whose LAST contig has reads but writes no molecule
    'pooled_small_last_writes_nothing': {'contigs': [{'name': 'sA', 'len': 2500, 'big': False, 'kinds': ['pair', 'single']},
                                                     {'name': 'big', 'len': 250_000, 'big': True, 'kinds': ['pair']},
                                                     {'name': 'sC', 'len': 40_000, 'big': False, 'kinds': ['sec_only']}], 'star': []},
    'pooled_small_last_only_rejects+no_rejects': {'contigs': [{'name': 'sA', 'len': 2500, 'big': False, 'kinds': ['pair', 'single']},
                                                              {'name': 'sC', 'len': 40_000, 'big': False, 'kinds': ['orphan_r2', 'qcfail']}],
                                                  'star': []},
}


def layout_for(size, mixed=False, damaged=None):
    """size = [n unplaced molecules, molecules on chrA, molecules on chrB]; big contigs only, so that the plan of the
    contig-per-process mode is complete whatever the plan code does with small contigs. mixed: the D4-sensitive shape."""
    contigs = [{'name': 'chrA', 'len': 250_000, 'big': True, 'kinds': ['pair'] * size[1]},
               {'name': 'chrB', 'len': 100_000, 'big': True, 'kinds': ['pair_rev'] * size[2]}]
    if damaged == 'star_untagged':   # the unassignable read sits among the UNPLACED unmapped reads (the '*' pass / '*' job)
        star = ['unplaced_single'] * (size[0] + 1)
        star.insert(len(star) // 2, 'unplaced_untagged')
        return {'contigs': contigs, 'star': star}
    if damaged in ('first', 'mid', 'last'):      # one read pair without SM/RX tags and without demultiplexing information in its name, at position k of n
        kinds = contigs[0]['kinds']
        at = {'first': 0, 'mid': len(kinds) // 2 + (len(kinds) % 2), 'last': len(kinds)}[damaged]
        kinds.insert(at, 'untagged')
    if mixed:
        contigs = [{'name': 'sc1', 'len': 2500, 'big': False, 'kinds': ['pair']},
                   {'name': 'sc2', 'len': 40_000, 'big': False, 'kinds': ['single']}] + contigs
    return {'contigs': contigs, 'star': ['unplaced_single'] * size[0]}


def fault_for(s):
    """Scenario of the model -> injection site.  Returns (fault dict or None, expect_hang)."""
    at, kind, k, tries, job, pipe = s['at'], s['kind'], s['k'], s['tries'], s['job'], s['pipeline']
    total = sum(s['size'])
    if at == 'done':
        if kind == 'none':
            return None, False
        if kind == 'rmtree_fails':
            return {'proc': 'parent', 'site': 'rmtree', 'when': 'fail', 'nth': 1, 'kind': 'exception'}, False
        raise KeyError(s)

    def P(site, when, nth=1):
        return {'proc': 'parent', 'site': site, 'when': when, 'nth': nth, 'kind': kind}
    if kind == 'vanish':      # a file produced by an earlier step disappears (odd k: is emptied) before the next step; no exception
        how = 'empty' if s.get('variant', 0) % 2 else 'delete'
        if at == 'sort':
            return dict(P('rehead', 'after'), target='@unsorted', how=how), False
        if at == 'index':
            return dict(P('index', 'before', 1), target='@out', how=how), False
        if at == 'merge':
            return dict(P('merge_bams', 'before'), target_job=CONTIG_OF_JOB[job], how=how), False
        raise KeyError(s)
    if at.startswith('worker:'):
        wpc = at.split(':', 1)[1]
        proc = 'job:%s' % CONTIG_OF_JOB[job]
        sz = s['size'][job - 1]
        if wpc == 'open':
            site = ('write', 'before', k + 1) if k < sz else ('sbf_exit', 'before', 1)
        else:
            site = {'idle': ('job', 'before', 1), 'closed': ('rehead', 'before', 1), 'rgtmp': ('bfrename', 'before', 1), 'rg': ('rehead', 'after', 1),
                    'sorted': ('sort', 'after', 1), 'indexed': ('index', 'after', 1), 'clean': ('sbf_exit', 'after', 1)}[wpc]
        return {'proc': proc, 'site': site[0], 'when': site[1], 'nth': site[2], 'kind': kind}, kind in ('kill', 'interrupt')
    common = {'start': P('status', 'before', 1), 'verify': P('verify', 'before'), 'rmold': P('verify', 'after'),
              'openin': P('getref', 'before')}
    if at in common:
        return common[at], False
    if pipe == 'single':
        if at == 'loop':
            f = P('write', 'before', k + 1) if k < total else P('write', 'after', total)
        elif at == 'sort':
            f = P('sort', 'before', tries + 1)
        elif at == 'sorting':
            f = P('sort', 'short' if s.get('left') == 'short' else 'partial', tries + 1)
        else:
            f = {'open': P('prefetch', 'before'), 'close': P('sbf_exit', 'before'), 'addrg': P('rehead', 'before'),
                 'addrg2': P('bfrename', 'before', 1), 'indexing': P('index', 'partial', 1),
                 'index': P('index', 'before', 1), 'rmunsorted': P('index', 'after', 1), 'statusok': P('sbf_exit', 'after')}[at]
        if tries:
            f['soft'] = {'proc': 'parent', 'site': 'sort', 'when': 'short' if s.get('left') == 'short' else 'partial', 'count': tries}
            if f['site'] == 'sort' and f['when'] == 'before':
                f['soft']['when'] = 'before'
        return f, False
    f = {'plan': P('plan', 'before'), 'pool': P('plan', 'after'), 'header': P('index', 'before', 1),
         'merge': P('merge_bams', 'before'), 'merging': P('merge', 'short' if s.get('left') == 'short' else 'partial'), 'indexmerged': P('merge', 'after'), 'indexingmerged': P('index', 'partial', 2),
         'rmparts': P('index', 'after', 2), 'rmtemp': P('merge_bams', 'after'), 'statusok': P('rmtree', 'after')}[at]
    return f, False


def make_case(cid, workdir, s, method, bamseed, mixed=False, damaged=None, shape=None):
    cdir = os.path.join(workdir, 'case_%s' % cid)
    os.makedirs(cdir, exist_ok=True)
    layout = layout_for(s['size'], mixed, damaged) if not shape else json.loads(json.dumps(SHAPES[shape]))
    inp = os.path.join(cdir, 'in.bam')
    truth = tg.write(inp, layout, random.Random(bamseed), method)
    out = os.path.join(cdir, 'out.bam')
    argv = [inp, '-method', method, '-o', out]
    if s['pipeline'] == 'multi':
        argv += ['--multiprocess', '-tagthreads', '2', '-temp_folder', cdir]
    no_rejects = bool(shape and shape.endswith('+no_rejects'))
    if no_rejects:
        argv += ['--no_rejects']
    # environment / data driven failures (no fault injected; the judgement is the usual one: ok => complete output)
    inp_observed = inp
    if damaged == 'truncated_input':            # verify_and_fix_bam refuses it
        import shutil
        inp_observed = os.path.join(cdir, 'in_full.bam')      # what the input was meant to hold (observer side)
        shutil.copyfile(inp, inp_observed)
        with open(inp, 'r+b') as f:
            f.truncate(max(64, os.path.getsize(inp) - 40))
    elif damaged == 'index_missing':            # verify_and_fix_bam builds the index, the run must then be complete
        os.remove(inp + '.bai')
    elif damaged == 'bad_temp_folder' and s['pipeline'] == 'multi':
        argv[argv.index('-temp_folder') + 1] = os.path.join(cdir, 'no_such_dir')
    elif damaged == 'unsorted_path_blocked':    # <out>.bam.unsorted cannot be opened for writing
        os.makedirs(out + '.unsorted', exist_ok=True)
    extra = {}
    if damaged == 'input_replaced':             # history: an earlier run of this process tagged OTHER content at the same input path
        import shutil
        second = os.path.join(cdir, 'second.bam')
        shutil.move(inp, second)
        shutil.move(inp + '.bai', second + '.bai')
        first = {'contigs': [dict(c, kinds=(['single'] if i == 0 else [])) for i, c in enumerate(layout['contigs'])], 'star': []}
        tg.write(inp, first, random.Random(bamseed + 1), method)
        inp_observed = second
        extra = {'prerun_argv': list(argv), 'swap_from': second}
    fault, hang = fault_for(s)
    if fault and str(fault.get('target', '')).startswith('@'):
        fault['target'] = {'@unsorted': out + '.unsorted', '@out': out}[fault['target']]
    return {**extra, 'id': cid, 'argv': argv, 'out': out, 'inp': inp, 'inp_observed': inp_observed, 'truth': truth, 'layout': layout, 'scn': s, 'method': method,
            'fault': fault, 'expect_hang': hang,
            'prerun': bool(s['prev']) and damaged not in ('truncated_input', 'bad_temp_folder', 'unsorted_path_blocked', 'input_replaced'), 'bamseed': bamseed, 'mixed': mixed, 'damaged': damaged or '', 'shape': shape or '', 'snapshots': True, 'no_rejects': no_rejects,
            'stale_old_index': bool(s['prev'])}


def strip(o):
    o = dict(o)
    recs = o.pop('records', [])
    for r in recs:
        r.pop('flag', None)
    return o, recs


def events_for(case, res, tid):
    inrecs = th.read_records(case['inp_observed'])
    for r in inrecs:
        t = case['truth'][(r['name'], r['mate'])]
        r['pm'], r['valid'] = t['pm'], t['valid']
        del r['rg'], r['flag']
    pe = res['events']['parent']
    base = {'tid': tid, 'pipeline': case['scn']['pipeline'], 'method': case['method'], 'scn': case['scn'], 'mixed': case['mixed'],
            'damaged': case['damaged'], 'shape': case['shape'], 'no_rejects': case['no_rejects'],
            'bamseed': case['bamseed'], 'fault': {k: v for k, v in (case['fault'] or {}).items() if k != 'soft'} or {'site': 'none'}}
    evs = []
    writes = [e for e in pe if e['ev'] == 'status_write']
    for n, wv in enumerate(writes):
        o, recs = strip(wv.get('obs') or {})
        if o:
            evs.append(dict(base, ev='snap', n=n + 1, msg=wv['msg'][:60], interrupted=False, **o, **{'in': inrecs, 'out': recs}))
    o, recs = strip(th.inspect_output(case['out']))
    end = [e for e in pe if e['ev'] == 'end']
    evs.append(dict(base, ev='case', exit=res['exit'], timeout=res['timeout'], fired=bool(res['events']['fired']),
                    raised=(end[-1]['raised'] if end else 'died'),
                    interrupted=bool(res['exit'] != 0 or res['timeout']),
                    status_writes=[th.classify_status(wv['msg']) for wv in writes], **o, **{'in': inrecs, 'out': recs}))
    return evs


def main():
    outp, tier, seed = sys.argv[1], sys.argv[2], int(sys.argv[3])
    scns = json.load(open(sys.argv[4]))
    replay = json.load(open(sys.argv[5])) if len(sys.argv) > 5 else None
    rng = random.Random(seed)
    workdir = os.path.join(os.getcwd(), 'c20_work')
    os.makedirs(workdir, exist_ok=True)
    import singlecellmultiomics.universalBamTagger.bamtagmultiome  # noqa: F401  warm import before forking
    cases = []
    unrealisable = []
    if replay:
        cases.append(make_case(1, workdir, replay['scn'], replay['method'], replay['bamseed'], replay.get('mixed', False),
                               replay.get('damaged') or None, replay.get('shape') or None))
    else:
        for k, s in enumerate(scns):
            if s['at'].startswith('worker:') and s['job'] >= 2 and s['size'][s['job'] - 1] == 0:
                # a contig without records is not in idxstats, so the real plan has no such job (the model plans it and
                # DropEmptyJob removes it): nothing to inject into
                unrealisable.append(k)
                continue
            if s['pipeline'] == 'single' and s['at'] == 'loop' and sum(s['size']) == 0:
                unrealisable.append(k)      # no molecule, so no boundary inside the loop to inject at
                continue
            methods = ['nla', 'chic'] if (tier != 'quick' or s['at'] == 'done') else [['nla', 'chic'][k % 2]]
            for vi, m in enumerate(methods if s['kind'] != 'vanish' else ['nla', 'chic']):
                cases.append(make_case(len(cases) + 1, workdir, dict(s, variant=vi) if s['kind'] == 'vanish' else s, m,
                                       rng.randrange(1 << 30)))
            if s['at'] == 'done' and s['kind'] == 'none' and s['pipeline'] == 'multi':
                # the same finished run on a layout with small contigs (the plan of the contig-per-process mode matters)
                cases.append(make_case(len(cases) + 1, workdir, s, 'nla', rng.randrange(1 << 30), mixed=True))
            if s['at'] == 'done' and s['kind'] == 'none' and s['tries'] == 0 and sum(s['size']) > 0:
                for shp in sorted(SHAPES):
                    for m in ('nla', 'chic'):
                        cases.append(make_case(len(cases) + 1, workdir, s, m, rng.randrange(1 << 30), shape=shp))
            if s['at'] == 'done' and s['kind'] == 'none' and s['tries'] == 0 and sum(s['size']) > 0:
                # falsy-but-valid input: a BAM without any record (finished run, earlier run present / absent as in s)
                empty = dict(s, size=[0, 0, 0], k=0)
                cases.append(make_case(len(cases) + 1, workdir, empty, 'nla', rng.randrange(1 << 30)))
            if s['at'] == 'done' and s['kind'] == 'none' and s['tries'] == 0 and sum(s['size']) > 0:
                # data-driven failure: the input holds a read that cannot be assigned to a cell (no SM tag, no demultiplexing
                # information in its name) at position k of n - no fault is injected
                for pos in ('first', 'mid', 'last', 'star_untagged'):
                    for m in ('nla', 'chic'):
                        cases.append(make_case(len(cases) + 1, workdir, s, m, rng.randrange(1 << 30), damaged=pos))
                for env_failure in ('truncated_input', 'index_missing', 'bad_temp_folder', 'unsorted_path_blocked', 'input_replaced'):
                    if (env_failure == 'bad_temp_folder') != (s['pipeline'] == 'multi') and env_failure in ('bad_temp_folder', 'unsorted_path_blocked'):
                        continue
                    cases.append(make_case(len(cases) + 1, workdir, s, 'nla', rng.randrange(1 << 30), damaged=env_failure))
    results = th.run_cases(cases, workdir, parallel=8, timeout=90, hang_timeout=6 if tier == 'quick' else 10)
    n_fired = 0
    with open(outp, 'w') as f:
        for c in cases:
            for e in events_for(c, results[c['id']], c['id']):
                f.write(json.dumps(e, separators=(',', ':')) + '\n')
            n_fired += bool(results[c['id']]['events']['fired'])
    json.dump({'cases': len(cases), 'fired': n_fired, 'unrealisable_scenarios': len(unrealisable),
               # an input without records skips whole steps (no pysam.merge: the header-only file is moved; no job for a contig):
               # crash points of the model that the real run then never passes are counted, not treated as a mapping error
               'unreached_on_empty_input': sum(1 for c in cases if c['fault'] and sum(c['scn']['size']) == 0
                                               and not results[c['id']]['events']['fired']),
               'not_fired': [c['id'] for c in cases if c['fault'] and sum(c['scn']['size']) > 0
                             and not results[c['id']]['events']['fired']]}, open(outp + '.meta', 'w'))


if __name__ == '__main__':
    main()
