"""C10 driver: records observations of the real binning arithmetic and of the binned count-table entry point.
usage: drive_binning.py <out.ndjson> <tier> <seed>
Only drives and records; TLC (Trace_Binning) judges."""
import json
import os
import random
import sys
import tempfile
from types import SimpleNamespace

import bamgen


def grid(tier):
    if tier == 'quick':
        return range(0, 121), range(1, 25)
    return range(0, 301), range(1, 41)


def main():
    out, tier, seed = sys.argv[1], sys.argv[2], int(sys.argv[3])
    rng = random.Random(seed)
    import singlecellmultiomics.bamProcessing.bamToCountTable as ct
    import singlecellmultiomics.utils.binning as ub
    tid = 0
    with open(out, 'w') as f:
        def emit(e):
            f.write(json.dumps(e, separators=(',', ':')) + '\n')

        srcs = [('bamToCountTable', ct), ('utils.binning', ub)]
        cs, bs = grid(tier)
        for name, mod in srcs:
            for b in bs:
                for s in range(1, b + 1):
                    # all coordinates for small b, boundary neighbourhoods + sample otherwise
                    for c in cs:
                        tid += 1
                        bins = mod.coordinate_to_bins(c, b, s)
                        emit({'ev': 'bins', 'tid': tid, 'src': name, 'c': c, 'b': b, 's': s,
                              'bins': [[int(x), int(y)] for x, y in bins]})
            # closed-form locations on a coarser grid + big coordinates
            for _ in range(2000 if tier == 'quick' else 20000):
                b = rng.randint(1, 5000)
                s = rng.randint(1, b)
                k = rng.randint(0, 400000)
                c = rng.choice([k * s, k * s + b, k * b, k * s + rng.randint(0, b), rng.randint(0, 2 ** 30)])
                tid += 1
                st, en, si, ei = mod.coordinate_to_sliding_bin_locations(c, b, s)
                emit({'ev': 'loc', 'tid': tid, 'src': name, 'c': c, 'b': b, 's': s, 'start': int(st), 'end': int(en),
                      'start_id': int(si), 'end_id': int(ei)})
                tid += 1
                bins = mod.coordinate_to_bins(c, b, s) if b // s <= 50 else None
                if bins is not None:
                    emit({'ev': 'bins', 'tid': tid, 'src': name, 'c': c, 'b': b, 's': s,
                          'bins': [[int(x), int(y)] for x, y in bins]})

        # count-table entry point on synthetic tagged BAMs
        nb = 160 if tier == 'quick' else 2500
        tmp = tempfile.mkdtemp(prefix='c10_', dir=os.getcwd())
        def make_bam(path, b, s, reflen, bintag, contigs, n, extra=False, only=None, attr=False):
            # contigs of one BAM have DIFFERENT lengths (same coordinate, other bounds), the first one has `reflen`
            names = sorted(set(contigs))
            lens = {c: (reflen if k == 0 else max(4, reflen + rng.choice([-b, -1, 1, b, 2 * b, -reflen // 2]))) for k, c in enumerate(names)}
            header = bamgen.make_header([(c, lens[c]) for c in names])
            reads, desc = [], []
            shared = rng.choice([0, lens[names[0]] - 1, lens[names[0]], b * max(0, lens[names[0]] // b - 1)])
            for i in range(n):
                contig = rng.choice(contigs)
                reflen = lens[contig]
                # bin-tag value on multiples of the bin size / increment, 0, the contig end, and anything else
                c = rng.choice([0, reflen - 1, reflen, rng.randint(0, reflen), b * rng.randint(0, reflen // b),
                                s * rng.randint(0, reflen // s), max(0, b * rng.randint(0, reflen // b) - 1)])
                if rng.random() < 0.35:
                    c = shared                      # the same coordinate on contigs of different length
                c = min(c, reflen)
                sample = rng.choice(['cellA', 'cellB'])
                pos = min(max(0, c - 2), reflen - 4)
                if rng.random() < 0.4:      # the bin-tag value is independent of where the read aligns
                    pos = rng.randint(0, max(0, reflen - 4))
                paired = rng.random() < 0.3
                ft = rng.choice(['a', 'b'])
                if attr:                    # the binned value is a read attribute (reference_start), not a SAM tag
                    c = pos = max(0, min(c, reflen - 4))
                    tags = {'SM': sample}
                else:
                    tags = {'SM': sample, bintag: c} if rng.random() < 0.9 else {'SM': sample}
                if extra:
                    tags['ft'] = ft
                mate_pos = rng.choice([pos, pos, max(0, pos - 1)])
                reads.append(bamgen.make_read(header, 'r%d' % i, contig, pos, 'ACGT', paired=paired, read1=paired,
                                              mate_contig=contig if paired else None, mate_pos=mate_pos, tags=tags))
                if attr:
                    ft, extra_lbl = str(reads[-1].next_reference_start), True
                else:
                    extra_lbl = extra
                # a read without the bin tag has no coordinate; a read outside the selected contig is not iterated:
                # both are outside the claim of C10 (C11 judges selection/filters)
                if (attr or reads[-1].has_tag(bintag)) and (only is None or contig == only):
                    desc.append({'c': c, 'w': 1 if paired else 2, 'reflen': reflen,
                                 'sample': sample + '|' + contig + ('|' + ft if extra_lbl else '')})
            bamgen.write_bam(path, header, reads)
            return desc

        import io
        import contextlib

        def run_table(args):
            try:
                with contextlib.redirect_stdout(io.StringIO()):
                    return ct.create_count_table(args, return_df=True)
            except Exception as ex:      # noqa: recorded as an observation
                return type(ex).__name__

        for k in range(nb):
            b = rng.choice([1, 2, 3, 5, 10, 30, 100])
            s = rng.choice([b, b, max(1, b // 2), max(1, b // 3), 1]) if b > 1 else 1
            reflen = rng.choice([b * 4, b * 4 + 1, b * 5 - 1, 97, 1000])
            keep = rng.random() < 0.4
            bintag = rng.choice(['DS', 'DS', 'bp', 'xs'])          # any bin tag
            sliding_arg = None if (s == b and rng.random() < 0.5) else s   # default: sliding = bin
            # history / configuration shapes: one BAM; several BAMs in one call whose headers differ;
            # the same args namespace re-used for a second call on a BAM with other contig lengths
            shape = rng.choice(['one', 'one', 'two_files', 'reuse_args', 'extra_feature', 'contig_selected', 'attr_bintag'])
            # contig names of one header may differ only by a prefix ('chr1' and '1' are different contigs)
            n0, n1, n2 = rng.choice([('chrA', 'chrB', 'chrC'), ('chr1', '1', 'chr2'), ('1', 'chr1', '11')])
            raised = ''
            path = os.path.join(tmp, 'b%d.bam' % k)
            path2 = os.path.join(tmp, 'b%d_2.bam' % k)
            extra = shape == 'extra_feature'
            attr = shape == 'attr_bintag'
            if attr:
                bintag = 'reference_start'      # a feature name that CONTAINS the bin tag's name is also supplied
            only = n0 if shape == 'contig_selected' else None
            desc = make_bam(path, b, s, reflen, bintag, [n0, n0, n1], rng.randint(1, 12), extra=extra, only=only, attr=attr)
            paths = [path]

            def mk_args(files):
                return SimpleNamespace(alignmentfiles=files, head=None, o=None, bin=b, binTag=bintag, sliding=sliding_arg,
                                       bedfile=None, showtags=False, featureTags=None,
                                       joinedFeatureTags='reference_name,ft' if extra else (
                                           'reference_name,next_reference_start' if attr else 'reference_name'),
                                       byValue=None, sampleTags='SM', proper_pairs_only=False, no_indels=False,
                                       max_base_edits=None, no_softclips=False, minMQ=0, filterXA=False, dedup=False,
                                       divideMultimapping=False, doNotDivideFragments=False, contig=only, blacklist=None,
                                       r1only=False, r2only=False, filterMP=False, splitFeatures=False,
                                       feature_delimiter=',', noNames=False, keepOverBounds=keep)
            if shape == 'two_files':
                reflen2 = rng.choice([reflen + b, reflen + 1, max(4, reflen - b), reflen * 2])
                desc = desc + make_bam(path2, b, s, reflen2, bintag, [n0, n1, n2], rng.randint(1, 12))
                paths = [path, path2]
                args = mk_args(paths)
                df = run_table(args)
            elif shape == 'reuse_args':
                reflen2 = rng.choice([reflen + b, reflen + 1, max(4, reflen - b), reflen * 2])
                args = mk_args([path])
                with contextlib.redirect_stdout(io.StringIO()):
                    ct.create_count_table(args, return_df=True)          # first call: result discarded
                desc = make_bam(path2, b, s, reflen2, bintag, [n0, n1, n2], rng.randint(1, 12))
                paths = [path, path2]
                args.alignmentfiles = [path2]                            # same namespace, other BAM
                df = run_table(args)
            else:
                args = mk_args(paths)
                df = run_table(args)
            rows = []
            if isinstance(df, str):          # the entry point raised on a legal input: recorded, TLC judges
                raised, df = df, None
            for col in (df.columns if df is not None else []):
                colname = col if isinstance(col, str) else col[0]
                for idx, v in df[col].items():
                    if v != v:  # NaN: cell absent
                        continue
                    contig, start, end = idx[0], idx[-2], idx[-1]
                    if len(idx) == 4:
                        contig = contig + '|' + idx[1]
                    w2 = v * 2
                    assert abs(w2 - round(w2)) < 1e-9, v
                    rows.append({'sample': colname + '|' + contig, 'start': int(start), 'end': int(end), 'w': int(round(w2))})
            tid += 1
            emit({'ev': 'table', 'tid': tid, 'b': b, 's': s, 'keep': keep, 'shape': shape, 'raised': raised, 'reads': desc, 'table': rows})
            for pth in paths:
                os.remove(pth)
                os.remove(pth + '.bai')
        os.rmdir(tmp)


if __name__ == '__main__':
    main()
