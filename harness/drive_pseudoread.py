"""C15 driver: the real majority-consensus writer on synthetic molecules.
usage: drive_pseudoread.py <out.ndjson> <tier> <seed> [--replay <case.json>]
  (a) API:  CHICMolecule(fragments, reference=FastaFile).deduplicate_majority(target_bam, name, max_N_span); the returned
            records are written to a BAM file and observed by reading that file back with pysam;
  (b) CLI:  bamtagmultiome.py <bam> -method chic --multiprocess --consensus [-ref fa] [--no_source_reads], output BAM read back.
Only drives and records; TLC (Trace_PseudoRead) judges."""
import json
import os
import random
import re
import signal
import subprocess
import sys

import pysam

import molgen

MD_RE = re.compile(r'(\d+)|(\^[A-Za-z]+)|([A-Za-z])')
CIGAR_OPS = 'MIDNSHP=XB'
CLI_TIMEOUT = 60


def md_tokens(md):
    out = []
    for m in MD_RE.finditer(md):
        if m.group(1) is not None:
            out.append({'n': int(m.group(1))})
        elif m.group(2) is not None:
            out.append({'d': m.group(2)[1:]})
        else:
            out.append({'b': m.group(3)})     # as written: MD letters must be the upper-case reference bases
    return out


TAG_TYPES = {'SM': str, 'RX': str, 'MI': str, 'DS': int, 'TF': int, 'af': int}


def project_record(r):
    """Total projection of a record read back from a BAM file: a tag whose value does not have the expected type is left
    out of "tags" (so the spec rejects it as missing) and its type name is kept in "tag_types" for the message."""
    tags, tag_types = {'_': 0}, {'_': ''}
    for k, typ in TAG_TYPES.items():
        try:
            if r.has_tag(k):
                v = r.get_tag(k)
                tag_types[k] = type(v).__name__
                if typ is int and isinstance(v, int) and not isinstance(v, bool) and abs(v) < 2 ** 31:
                    tags[k] = int(v)
                elif typ is str and isinstance(v, str):
                    tags[k] = v
        except Exception as ex:
            tag_types[k] = 'unreadable:' + type(ex).__name__
    try:
        quals = r.query_qualities
        nq = 0 if quals is None else len(quals)
    except Exception:
        nq = -1
    try:
        md = md_tokens(r.get_tag('MD')) if r.has_tag('MD') and isinstance(r.get_tag('MD'), str) else []
        has_md = r.has_tag('MD') and isinstance(r.get_tag('MD'), str)
    except Exception:
        md, has_md = [], False
    return {'name': str(r.query_name), 'chrom': r.reference_name or '*', 'start': int(r.reference_start), 'rev': bool(r.is_reverse),
            'cigar': [{'op': CIGAR_OPS[op], 'n': int(n)} for op, n in (r.cigartuples or [])],
            'seq': list(r.query_sequence or ''), 'nq': nq, 'has_md': has_md, 'md': md,
            'tags': tags, 'tag_types': tag_types,
            'extra': {k: (str(r.get_tag(k)) if r.has_tag(k) else '') for k in ('BC',)},
            'flag': int(r.flag), 'mapq': int(r.mapping_quality)}


def read_back(path, keep):
    """All records of a written BAM for which keep(name) holds, grouped as a list; an output that cannot be read to its end is
    an observation (-> "raised": "UnreadableOutput"), not a driver crash."""
    out = []
    try:
        with pysam.AlignmentFile(path, check_sq=False) as f:
            for r in f:
                if keep(r.query_name):
                    out.append(project_record(r))
    except Exception as ex:
        return out, 'UnreadableOutput_' + type(ex).__name__
    return out, None


# ------------------------------------------------------------------------------------------------ generation

def gen_quals(rng, mode, n, qeq):
    if mode == 'equal':
        return [qeq] * n
    if mode == 'tri':
        return [rng.choice([10, 20, 30]) for _ in range(n)]
    if mode == 'lowtail':      # a '#' tail (phred 2) of 1..4 cycles at either end of the read
        k = min(n, rng.randint(1, 4))
        return [qeq] * (n - k) + [2] * k if rng.random() < 0.5 else [2] * k + [qeq] * (n - k)
    if mode == 'mid':          # phred 4..9: a single real base still beats the no-call hypothesis
        return [rng.randint(4, 9) for _ in range(n)]
    if mode == 'hi':           # up to the largest printable phred, unequal values above 60
        return [rng.choice([41, 60, 61, 62, 70, 92, 93]) for _ in range(n)]
    if mode == 'mask0':        # quality masking / overlap clipping: some bases of every read set to phred 0 (or 1, 2)
        return [rng.choice([0, 0, 0, 1, 2]) if rng.random() < 0.2 else qeq for _ in range(n)]
    if mode == 'low':          # nothing above phred 3: every position is undecidable for the caller -> N
        return [rng.randint(0, 3) for _ in range(n)]
    return [rng.choice([0, 0, 1]) if rng.random() < 0.1 else rng.randint(2, 41) for _ in range(n)]     # incl. quality 0 ('!')


def gen_mate(rng, ref, start, length, rev, qmode, qeq, err, gaps=True):
    cigar = molgen.random_cigar(rng, length, gaps)
    mate = {'start': start, 'rev': rev, 'cigar': cigar}
    pos_of = dict(molgen.aligned_positions({'start': start, 'cigar': cigar}))
    seq = []
    for qi in range(length):
        if qi in pos_of and rng.random() >= err:
            seq.append(ref[pos_of[qi]])
        else:
            seq.append(rng.choice('ACGTN' if rng.random() < 0.15 else 'ACGT'))
    mate['seq'] = seq
    mate['q'] = gen_quals(rng, qmode, length, qeq)
    if qmode == 'mid':         # a no-call in this read where another read may show the real base at phred 4..9
        mate['seq'] = ['N' if rng.random() < 0.2 else b for b in mate['seq']]
    return mate


def gen_molecule(rng, ref, origin, chrom, same_start=False, max_frags=6, force_rev=None, allow_unmapped=True):
    """One CHIC molecule: every fragment's first mate starts at (about) the same place; second mates land at varying
    distances, which produces covered blocks separated by gaps of many sizes."""
    rev = rng.random() < 0.4 if force_rev is None else force_rev
    n = rng.choice([1, 1, 1, 2, 2, 3, 3, 4, 5, 6][:max(1, min(10, max_frags * 2))])
    n = min(n, max_frags)
    qmode = rng.choices(['equal', 'tri', 'any', 'lowtail', 'low', 'mid', 'hi', 'mask0'], [0.31, 0.19, 0.08, 0.09, 0.05, 0.11, 0.08, 0.09])[0]
    qeq = rng.choice([10, 20, 30, 30, 37, 40, 3, 4, 9])     # 3 / 4: either side of the caller's N threshold
    err = rng.choice([0.0, 0.05, 0.15, 0.3])
    if qmode == 'mask0':
        err, qeq = rng.choice([0.0, 0.0, 0.05]), rng.choice([20, 30, 37])
    if qmode == 'mid':
        err = 0.0          # the only disagreement is an N call in one of the reads (see gen_mate)
    gaps = rng.random() < 0.5
    nomd = rng.random() < 0.1
    frags = []
    l1 = rng.randint(5, 25)
    for k in range(n):
        la = l1 if same_start else (rng.randint(1, 3) if rng.random() < 0.08 else rng.randint(5, 25))
        if not rev:
            s1 = origin if same_start else origin + rng.randint(0, 3)
        else:
            s1 = origin - la if same_start else origin - la - rng.randint(0, 3)
        r1 = gen_mate(rng, ref, s1, la, rev, qmode, qeq, err, gaps and not same_start)
        lb = rng.randint(1, 3) if rng.random() < 0.08 else rng.randint(5, 25)
        d = rng.choice([0, 1, 2, 3, 4, 5, 10, 11, 30, 60, 300, 301, 350])   # == and == +1 of every max_N_span used if rng.random() < 0.7 else -rng.randint(1, 10)
        if not rev:
            s2 = r1['start'] + molgen.ref_len(r1['cigar']) + d
        else:
            s2 = r1['start'] - d - lb - 4
        r2 = gen_mate(rng, ref, min(max(0, s2), len(ref) - lb - 8), lb, not rev, qmode, qeq, err, gaps)
        f = {'form': 'pair', 'r1': r1, 'r2': r2}
        x = rng.random()
        if x < 0.25:
            f = {'form': 'r1none', 'r1': r1}
        elif x < 0.30 and allow_unmapped:
            f = {'form': 'r2unmapped', 'r1': r1}       # half-mapped pair: the unmapped mate covers nothing
        if nomd:
            for mt in (f.get('r1'), f.get('r2')):
                if mt is not None:
                    mt['nomd'] = True                    # source reads without the optional MD tag
        frags.append(f)
    return {'chrom': chrom, 'frags': frags, 'strand': rev,
            'sample': 'cell%d' % rng.randint(1, 3), 'umi': ''.join(rng.choice('ACGT') for _ in range(4)), 'bc': 'ACGTAC'}


def gen_deep(rng, ref, origin, chrom):
    """A deep molecule: 32 / 33 / 64 / 66 observations of the same base at every position (16, 17, 32 or 33 fragments whose mates
    overlap completely, or 33 / 64 single-end fragments), all of one quality, with no or a few single conflicting observations."""
    rev = rng.random() < 0.4
    length = rng.randint(8, 14)
    q = rng.choice([20, 30, 37])
    paired = rng.random() < 0.7
    n = rng.choice([16, 17, 32, 33]) if paired else rng.choice([33, 64])
    start = origin if not rev else origin - length
    frags = []
    for k in range(n):
        def mate(r):
            return {'start': start, 'rev': r, 'cigar': [{'op': 'M', 'n': length}], 'seq': list(ref[start:start + length]), 'q': [q] * length}
        frags.append({'form': 'pair', 'r1': mate(rev), 'r2': mate(not rev)} if paired else {'form': 'r1none', 'r1': mate(rev)})
    for _ in range(rng.choice([0, 1, 1, 3])):      # single conflicting observations
        f = rng.choice(frags)
        m = f[rng.choice([k for k in ('r1', 'r2') if k in f])]
        i = rng.randrange(length)
        if m['seq'][i] in 'ACGT':
            m['seq'][i] = 'ACGT'[('ACGT'.index(m['seq'][i]) + rng.randint(1, 3)) % 4]
    return {'chrom': chrom, 'frags': frags, 'strand': rev, 'sample': 'cell%d' % rng.randint(1, 3),
            'umi': ''.join(rng.choice('ACGT') for _ in range(4)), 'bc': 'ACGTAC'}


def mapped_reads(mol):
    return [m for f in mol['frags'] for m in (f.get('r1'), f.get('r2')) if m is not None]


def ref_window(ref, mol):
    lo = min(m['start'] for m in mapped_reads(mol))
    hi = max(m['start'] + molgen.ref_len(m['cigar']) for m in mapped_reads(mol))
    lo = max(0, lo - 2)
    return {'start': lo, 'seq': list(ref[lo:hi + 2])}


def frag_umi(mol, f):
    return f.get('umi', mol['umi'])


def read_tags(mol, f=None):
    return {'SM': mol['sample'], 'RX': mol['umi'] if f is None else frag_umi(mol, f), 'BC': mol['bc'], 'MX': 'scCHIC', 'LY': 'lib1'}


def add_umi_errors(rng, mol, one_variant=False):
    """Give a minority of the fragments an error UMI at Hamming distance 1 from the molecule's UMI - lexicographically smaller
    and / or larger than it. The majority stays strictly larger than every minority, except for two-fragment molecules (tie)."""
    n = len(mol['frags'])
    for f in mol['frags']:
        f.pop('umi', None)
    if n < 2:
        return
    u = mol['umi']
    variants = [u[:-1] + c for c in 'ACGT' if c != u[-1]]      # smaller and larger ones
    if one_variant:
        variants = [rng.choice(variants)]
    k = 1 if n == 2 else rng.randint(1, (n - 1) // 2)
    # minorities anywhere in the insertion order, also first
    for i in rng.sample(range(n), k):
        mol['frags'][i]['umi'] = rng.choice(variants)


def base_event(ref, mol, via, max_n, site, assoc=None, cap=None, frag_sites=None):
    """assoc: number of fragments the molecule accepted (the first `assoc` of the description; the others were refused
    because of max_associated_fragments=cap and only count as overflow). TF = associated + overflow as write_tags defines it
    for the source reads; af = associated."""
    n = len(mol['frags'])
    assoc = n if assoc is None else assoc
    inside = dict(mol, frags=mol['frags'][:assoc])
    return {'ev': 'pseudo', 'via': via, 'maxN': -1 if max_n is None else int(max_n), 'chrom': mol['chrom'], 'strand': bool(mol['strand']),
            'mol': {'SM': mol['sample'], 'RX': mol['umi'], 'DS': int(site), 'TF': n, 'af': assoc},
            # UMIs of the fragments the molecule accepted: its UMI is the (strictly) most common one
            'umis': [frag_umi(mol, f) for f in mol['frags'][:assoc]], 'bc': mol['bc'],
            # all fragments offered to the molecule: CHICMolecule._add_fragment moves the site before a fragment can be refused
            # because of max_associated_fragments, and refused fragments still belong to the molecule (they count in TF)
            'frag_sites': (frag_sites or [int(site)]),
            'cap': 0 if cap is None else int(cap),
            'reads': [{'start': m['start'], 'cigar': m['cigar'], 'seq': m['seq'], 'q': m['q']} for m in mapped_reads(inside)],
            'ref': ref_window(ref, mol), 'desc': {'frags': mol['frags'], 'bc': mol['bc']}}


class Env:
    def __init__(self, seed):
        from singlecellmultiomics.molecule import CHICMolecule
        from singlecellmultiomics.fragment import CHICFragment
        self.CHICMolecule, self.CHICFragment = CHICMolecule, CHICFragment
        self.hdr = molgen.header()
        self.ref = molgen.make_reference(random.Random(seed + 1))
        self.fa = molgen.write_fasta(os.path.join(os.getcwd(), 'c15_ref_%d.fa' % os.getpid()), self.ref)
        self.fasta = pysam.FastaFile(self.fa)

    def fragments(self, mol):
        out = []
        for i, f in enumerate(mol['frags']):
            reads = molgen.build_reads(self.hdr, self.ref, mol['chrom'], 'src%d' % i, f, tags=read_tags(mol, f))
            out.append(self.CHICFragment(reads, assignment_radius=100000, umi_hamming_distance=1))
        return out

    def frag_sites(self, mol):
        """The cut site of every fragment as the fragment class defines it (fragment-level correctness is C09's subject); the
        molecule-level site is decided by the spec from these: smallest for a forward, largest for a reverse CHIC molecule."""
        return [int(f.get_site_location()[1]) for f in self.fragments(mol)]

    def site_of(self, mol):
        """The molecule's site as the fragment class defines it for the first fragment (C09 is about its correctness)."""
        reads = molgen.build_reads(self.hdr, self.ref, mol['chrom'], 'site', mol['frags'][0], tags=read_tags(mol, mol['frags'][0]))
        return self.CHICFragment(reads, assignment_radius=100000, umi_hamming_distance=0).get_site_location()[1]

    def api_case(self, mol, max_n, name, out_bam, cap=None, hist_k=None, wp=None, merge=False, crd=False):
        """-> list of (record name, exception name or None, site, associated fragments, fragments added so far).
        hist_k: history consensus -> add -> consensus on ONE molecule object: the writer is called after the first hist_k
        fragments and again after the remaining ones were added."""
        frs = self.fragments(mol)
        m = self.CHICMolecule(frs[0], reference=self.fasta, max_associated_fragments=cap)
        out = []

        def consensus(label, n_added):
            # the molecule's site as the molecule object reports it (its correctness is C09's subject; fragments of a CHIC
            # molecule may start at slightly different places and the molecule then moves its site)
            site = m.get_cut_site()[1]
            try:
                if wp is None:
                    recs = m.deduplicate_majority(out_bam, label, max_N_span=max_n)
                    for r in recs:
                        out_bam.write(r)
                elif wp in ('cb', 'cbkw'):   # write_pysam with a consensus_read_callback (with / without keyword arguments)
                    seen = []

                    def callback(reads, **kw):
                        seen.append((len(reads), sorted(kw)))
                    m.write_pysam(out_bam, consensus=True, no_source_reads=True, consensus_name=label, consensus_read_callback=callback,
                                  consensus_read_callback_kwargs={'note': 1} if wp == 'cbkw' else None)
                    assert len(seen) == 1, 'the harness callback was not called exactly once'
                else:   # the other public entry: Molecule.write_pysam(consensus=True) writes the records (and the source reads) itself
                    m.write_pysam(out_bam, consensus=True, no_source_reads=(wp == 'nosrc'), consensus_name=label)
                out.append((label, None, site, len(m), n_added))
            except Exception as ex:   # a crash of the code under test is an observation
                out.append((label, type(ex).__name__, site, len(m), n_added))
        if hist_k is not None and merge:
            # history through the other growth path: the remaining fragments form a second molecule that is merged in
            for f in frs[1:hist_k]:
                if not m.add_fragment(f):
                    m._add_fragment(f)
            consensus(name + '_pre', hist_k)
            m2 = self.CHICMolecule(frs[hist_k], reference=self.fasta)
            for f in frs[hist_k + 1:]:
                if not m2.add_fragment(f):
                    m2._add_fragment(f)
            m.add_molecule(m2)
            frs_rest = []
        else:
            frs_rest = frs[1:]
        for j, f in enumerate(frs_rest, start=1):
            if hist_k is not None and j == hist_k:
                consensus(name + '_pre', j)
            try:
                if not m.add_fragment(f):
                    m._add_fragment(f)
            except OverflowError:     # what MoleculeIterator does: the fragment belongs to the molecule but is not taken
                pass
        assert len(m) + m.overflow_fragments == len(frs) and (cap is not None or len(m) == len(frs))
        consensus(name, len(frs))
        if crd:
            # observation only: get_consensus_read() with its defaults (one record over spanStart..spanEnd from get_consensus();
            # not the entry the property names, recorded as a NOTE)
            try:
                out_bam.write(m.get_consensus_read(out_bam, name + '_crd'))
                out.append((name + '_crd', None, m.get_cut_site()[1], len(m), len(frs)))
            except Exception as ex:
                out.append((name + '_crd', type(ex).__name__, m.get_cut_site()[1], len(m), len(frs)))
        return out

    def cleanup(self):
        self.fasta.close()
        for p in (self.fa, self.fa + '.fai'):
            if os.path.exists(p):
                os.remove(p)


def run_api(env, emit, items, tid0, tag):
    """items: list of (mol, max_N_span[, cap[, hist_k]]). Records are written to one BAM and observed by reading it back."""
    path = os.path.join(os.getcwd(), 'c15_api_%s_%d.bam' % (tag, os.getpid()))
    results = {}
    with pysam.AlignmentFile(path, 'wb', header=env.hdr) as out:
        for k, item in enumerate(items):
            cap = item[2] if len(item) > 2 else None
            hist_k = item[3] if len(item) > 3 else None
            wp = item[4] if len(item) > 4 else None
            merge = item[5] if len(item) > 5 else False
            crd = item[6] if len(item) > 6 else False
            results[k] = env.api_case(item[0], item[1], 'cons_%d' % k, out, cap, hist_k, wp, merge, crd)
    got = {}
    recs_all, unreadable = read_back(path, lambda name: True)
    for rec in recs_all:
        got.setdefault(rec['name'], []).append(rec)
    os.remove(path)
    tid = tid0
    for k, item in enumerate(items):
        mol, max_n = item[0], item[1]
        cap = item[2] if len(item) > 2 else None
        hist_k = item[3] if len(item) > 3 else None
        for label, raised, site, assoc, n_added in results[k]:
            pre = label.endswith('_pre')
            sub = dict(mol, frags=mol['frags'][:n_added]) if pre else mol
            via = 'crd' if label.endswith('_crd') else ('api' if hist_k is None or pre else 'api_hist')
            e = base_event(env.ref, sub, via, max_n, site, assoc, cap, env.frag_sites(sub))
            if len(item) > 5 and item[5] and not pre:
                e['merge'] = True
            if hist_k is not None and not pre:
                e['hist_k'] = hist_k
            if len(item) > 4 and item[4]:
                e['wp'] = item[4]
            e['tid'] = tid
            tid += 1
            if raised or unreadable:
                e['raised'] = raised or unreadable
            else:
                e['records'] = got.get(label, [])
            emit(e)
    return tid


def run_cli(env, emit, mols, no_source, with_ref, tid0, tag, cap=None, radius=None, via_label=None):
    inp = os.path.join(os.getcwd(), 'c15_cli_%s_%d.bam' % (tag, os.getpid()))
    outp = os.path.join(os.getcwd(), 'c15_cli_%s_%d.out.bam' % (tag, os.getpid()))
    reads, names = [], set()
    for i, mol in enumerate(mols):
        for j, f in enumerate(mol['frags']):
            nm = 'src_m%d_f%d' % (i, j)
            names.add(nm)
            reads += [r for r in molgen.build_reads(env.hdr, env.ref, mol['chrom'], nm, f, tags=read_tags(mol, f)) if r is not None]
    reads.sort(key=lambda r: (r.reference_id, r.reference_start))
    with pysam.AlignmentFile(inp, 'wb', header=env.hdr) as f:
        for r in reads:
            f.write(r)
    pysam.index(inp)
    argv = [inp, '-method', 'chic', '--multiprocess', '-tagthreads', '2', '--consensus', '-o', outp]
    if with_ref:
        argv += ['-ref', env.fa]
    if radius is not None:
        argv += ['-assignment_radius', str(radius)]
    if no_source:
        argv.append('--no_source_reads')
    if cap is not None:
        # refused fragments are dropped (not written as one-fragment molecules of their own): one molecule per site
        argv += ['-max_associated_fragments', str(cap), '--no_overflow']
    # the command line runs in its own process group under a timeout: on a worker exception the pool-based tagger can wait
    # forever, which is recorded as an observation ("raised": "Hang") instead of hanging the driver
    code = ('import sys\nimport singlecellmultiomics.universalBamTagger.bamtagmultiome as tm\n'
            'tm.sleep = lambda s: None\ntm.run_multiome_tagging_cmd(sys.argv[1:])\n')
    raised = None
    p = subprocess.Popen([sys.executable, '-c', code] + argv, stdout=subprocess.DEVNULL, stderr=subprocess.PIPE,
                         start_new_session=True, text=True, errors='replace')
    try:
        _, err = p.communicate(timeout=CLI_TIMEOUT)
        if p.returncode != 0:
            m = re.findall(r'^(\w+(?:Error|Exception))\b', err or '', re.M)
            raised = m[-1] if m else 'ExitCode%d' % p.returncode
    except subprocess.TimeoutExpired:
        try:
            os.killpg(p.pid, signal.SIGKILL)
        except ProcessLookupError:
            pass
        p.communicate()
        raised = 'Hang'
    cons = []
    if raised is None and os.path.exists(outp):
        cons, raised = read_back(outp, lambda name: name not in names)
    elif raised is None:
        raised = 'NoOutputFile'
    for p in (inp, inp + '.bai', outp, outp + '.bai', outp.replace('.bam', '.status.txt')):
        if os.path.exists(p):
            os.remove(p)
    via = via_label or ('cli_nosrc' if no_source else 'cli')
    sites = [env.site_of(mol) for mol in mols]
    used = set()
    for i, mol in enumerate(mols):
        e = base_event(env.ref, mol, via, None, sites[i], None if cap is None else min(cap, len(mol['frags'])), cap, env.frag_sites(mol))
        e['radius'] = 0 if radius is None else int(radius)
        # the other molecules of the same BAM file (a command-line failure can be caused by any of them): needed for --replay
        e['bam_mols'] = [mm for j, mm in enumerate(mols) if j != i]
        e['tid'] = tid0 + i
        e['with_ref'] = bool(with_ref)
        if raised:
            e['raised'] = raised
        else:
            lo, hi = e['ref']['start'], e['ref']['start'] + len(e['ref']['seq'])
            mine = [k for k, c in enumerate(cons) if c['chrom'] == mol['chrom'] and lo <= c['start'] < hi
                    and c['tags'].get('SM', mol['sample']) == mol['sample']]
            used.update(mine)
            e['records'] = [cons[k] for k in mine]
        emit(e)
    tid = tid0 + len(mols)
    for k, c in enumerate(cons):
        if k not in used:
            emit({'ev': 'orphan', 'tid': tid, 'via': via, 'record': c})
            tid += 1
    return tid, raised == 'Hang'


def main():
    out, tier, seed = sys.argv[1], sys.argv[2], int(sys.argv[3])
    rng = random.Random(seed)
    env = Env(seed)
    try:
        with open(out, 'w') as f:
            def emit(e):
                f.write(json.dumps(e, separators=(',', ':')) + '\n')
            if '--replay' in sys.argv:
                case = json.load(open(sys.argv[sys.argv.index('--replay') + 1]))
                e = case['event']
                mol = {'chrom': e['chrom'], 'frags': e['desc']['frags'], 'strand': e['strand'], 'sample': e['mol']['SM'],
                       'umi': e['mol']['RX'], 'bc': e['desc']['bc']}
                cap = e.get('cap') or None
                if e['via'] in ('api', 'api_hist', 'crd'):
                    run_api(env, emit, [(mol, None if e['maxN'] < 0 else e['maxN'], cap, e.get('hist_k'), e.get('wp'), e.get('merge', False))], 1, 'replay')
                else:
                    run_cli(env, emit, [mol] + e.get('bam_mols', []), e['via'] == 'cli_nosrc', e.get('with_ref', True), 1, 'replay', cap, e.get('radius') or None,
                            via_label=e['via'] if e['via'] == 'cli_halfmapped' else None)
                return
            tid = 1
            n_api = 300 if tier == "quick" else 15000
            batch = []
            for k in range(n_api):
                edge = rng.random()
                if edge < 0.04:      # first mates start at reference position 0 (site -2: a negative tag value)
                    mol = gen_molecule(rng, env.ref, 0, rng.choice([c for c, _ in molgen.CONTIGS]), same_start=True, force_rev=False)
                elif edge < 0.08:    # reverse first mates end exactly at the contig end
                    mol = gen_molecule(rng, env.ref, len(env.ref), rng.choice([c for c, _ in molgen.CONTIGS]), same_start=True, force_rev=True)
                else:
                    mol = gen_molecule(rng, env.ref, rng.randint(500, 100000), rng.choice([c for c, _ in molgen.CONTIGS]))
                if rng.random() < 0.4:
                    add_umi_errors(rng, mol)
                n = len(mol['frags'])
                # every fifth molecule of >= 2 fragments exceeds a configured max_associated_fragments
                cap = rng.randint(1, n - 1) if n >= 2 and rng.random() < 0.35 else None
                # history consensus -> add -> consensus on one object (uncapped molecules of >= 2 fragments)
                hist_k = rng.randint(1, n - 1) if cap is None and n >= 2 and rng.random() < 0.5 else None
                wp = rng.choice(['src', 'nosrc', 'cb', 'cbkw']) if rng.random() < 0.2 else None     # Molecule.write_pysam(consensus=True) entry
                merge = hist_k is not None and rng.random() < 0.5       # second half arrives through add_molecule
                crd = wp is None and cap is None and rng.random() < 0.1
                batch.append((mol, None if wp else rng.choice([None, None, 0, 0, 1, 3, 10, 300]), cap, hist_k, wp, merge, crd))
            # deep molecules: >= 32 and >= 64 observations of one base at a position
            for k in range(6 if tier == 'quick' else 150):
                mol = gen_deep(rng, env.ref, rng.randint(500, 100000), rng.choice([c for c, _ in molgen.CONTIGS]))
                batch.append((mol, rng.choice([None, 0, 10]), None, None, None, False, False))
            tid = run_api(env, emit, batch, tid, 'a')
            n_cli = 4 if tier == 'quick' else 60
            for k in range(n_cli):
                # every fourth run: -assignment_radius 10 and fragments whose first mates (cut sites) differ by a few bases
                radius = 10 if k % 4 == 0 else None
                mols, site = [], {c: 1000 for c, _ in molgen.CONTIGS}
                for _ in range(rng.randint(1, 6)):
                    chrom = rng.choice([c for c, _ in molgen.CONTIGS])
                    site[chrom] += rng.randint(3000, 9000)
                    mols.append(gen_molecule(rng, env.ref, site[chrom], chrom, same_start=(radius is None), max_frags=4))
                if rng.random() < 0.5:
                    # a second cell with a molecule at exactly the same place and with the same UMI (equal keys but for the sample)
                    twin = json.loads(json.dumps(mols[0]))
                    twin['sample'] = 'cell9'
                    for fr in twin['frags']:
                        for mt in (fr.get('r1'), fr.get('r2')):
                            if mt is not None and mt['seq'][0] != 'N':
                                mt['seq'][0] = 'ACGT'[('ACGT'.index(mt['seq'][0]) + 1) % 4]
                    mols.append(twin)
                    twin_of_first = True
                else:
                    twin_of_first = False
                for i, m in enumerate(mols[:len(mols) - (1 if twin_of_first else 0)]):   # distinct UMIs: molecules are told apart by position anyway
                    m['umi'] = 'ACGT'[i % 4] + m['umi'][1:]
                if twin_of_first:
                    mols[-1]['umi'] = mols[0]['umi']
                for m in mols:
                    if rng.random() < 0.6:
                        # the tagger pools UMIs within Hamming distance 1 of each other: one error variant per molecule
                        add_umi_errors(rng, m, one_variant=True)
                cap = None
                if k % 4 == 2:
                    # capped run: which fragments a molecule accepts depends on the tagger's read order, so every fragment of a
                    # molecule is a copy of its first one - coverage and calls are then the same for any accepted subset
                    cap = rng.randint(1, 2)
                    for m in mols:
                        m['frags'] = [json.loads(json.dumps(m['frags'][0])) for _ in range(rng.randint(cap + 1, cap + 3))]
                tid, hung = run_cli(env, emit, mols, no_source=(k % 2 == 1), with_ref=True, tid0=tid, tag='c%d' % k, cap=cap, radius=radius)
                if hung:        # every further run would only wait for the timeout again
                    break
            # a BAM that certainly holds a half-mapped pair (second mate unmapped, placed at its mate's position): every molecule with a
            # mapped fragment must still get its records (D151: the run used to abort with ValueError)
            mols = [gen_molecule(rng, env.ref, 4000, 'chr1', same_start=True, max_frags=2, allow_unmapped=False),
                    gen_molecule(rng, env.ref, 9000, 'chr1', same_start=True, max_frags=1, allow_unmapped=False)]
            mols[1]['frags'][0] = {'form': 'r2unmapped', 'r1': mols[1]['frags'][0]['r1']}
            tid, _ = run_cli(env, emit, mols, no_source=False, with_ref=True, tid0=tid, tag='hm', via_label='cli_halfmapped')
    finally:
        env.cleanup()


if __name__ == '__main__':
    main()
