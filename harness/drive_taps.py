"""C14 driver: builds TAPS molecules on synthetic references with the real classes of singlecellmultiomics and records what
the code produced (methylation_call_dict, XM and count tags per read). Only drives and records; TLC (Trace_Taps) judges.

usage: drive_taps.py <out.ndjson> <tier> <seed> [<scenarios.json> ...]
       drive_taps.py --replay <event.json> <out.ndjson>
  * random molecules (abstract description first: reference, strand, convention, mate geometry, methylation pattern,
    errors; the pysam records are derived from it),
  * scenarios enumerated by TLC from spec/Taps.tla (files of JSON lists written by the check) are replayed one by one.
"""
import array
import json
import os
import random
import sys

import pysam

TOT_TAGS = ['MC', 'uC', 'sZ', 'sz', 'sX', 'sx', 'sH', 'sh']
COMP = {'A': 'T', 'C': 'G', 'G': 'C', 'T': 'A'}


# ------------------------------------------------------------------------------------------------
# reference files

def write_fasta(path, contigs):
    """contigs: list of (name, sequence). One line per contig; the .fai index is written by hand."""
    fai = []
    with open(path, 'w') as f:
        off = 0
        for name, seq in contigs:
            hdr = '>%s\n' % name
            f.write(hdr)
            off += len(hdr)
            f.write(seq + '\n')
            fai.append('%s\t%d\t%d\t%d\t%d\n' % (name, len(seq), off, len(seq), len(seq) + 1))
            off += len(seq) + 1
    with open(path + '.fai', 'w') as f:
        f.write(''.join(fai))


# ------------------------------------------------------------------------------------------------
# abstract read -> pysam record

def md_tag(ref_upper, start, cigar, seq):
    """MD of an alignment (reference upper case, as an aligner writes it)."""
    out, run, q, p, in_del = [], 0, 0, start, False
    for op, n in cigar:
        if op in (0, 7, 8):
            for _ in range(n):
                if ref_upper[p] == seq[q]:
                    run += 1
                else:
                    out.append(str(run))
                    out.append(ref_upper[p])
                    run = 0
                q += 1
                p += 1
        elif op in (1, 4):
            q += n
        elif op == 2:
            out.append(str(run))
            out.append('^' + ref_upper[p:p + n])
            run = 0
            p += n
        elif op == 3:
            p += n
    out.append(str(run))
    return ''.join(out)


def ref_span(cigar):
    return sum(n for op, n in cigar if op in (0, 2, 3, 7, 8))


def build_read(header, name, contig, ref_upper, rd, mate_rd, umi, extra_tags):
    a = pysam.AlignedSegment(header)
    a.query_name = name
    a.reference_id = header.get_tid(contig)
    a.reference_start = rd['start']
    a.query_sequence = ''.join(rd['seq'])
    a.cigartuples = [tuple(c) for c in rd['cigar']]
    a.query_qualities = array.array('B', rd['qual'])
    a.mapping_quality = 60
    a.is_reverse = bool(rd['rev'])
    a.is_read1 = rd['mate'] == 1
    a.is_read2 = rd['mate'] == 2
    if mate_rd is not None:
        a.is_paired = True
        a.is_proper_pair = True
        a.mate_is_reverse = bool(mate_rd['rev'])
        a.next_reference_id = a.reference_id
        a.next_reference_start = mate_rd['start']
    a.set_tag('SM', 'cellA')
    a.set_tag('RX', umi)
    a.set_tag('BC', 'AACCGGTT')
    for k, v in extra_tags.items():
        a.set_tag(k, v)
    a.set_tag('MD', md_tag(ref_upper, rd['start'], rd['cigar'], a.query_sequence))
    return a


# ------------------------------------------------------------------------------------------------
# run the real code on one abstract molecule and record

class Runner:
    def __init__(self, fasta_path, contigs):
        from singlecellmultiomics.molecule import TAPSNlaIIIMolecule, TAPSCHICMolecule, TAPSMolecule, TAPS
        from singlecellmultiomics.fragment import NlaIIIFragment, CHICFragment, Fragment
        from pysamiterators import CachedFasta
        self.cls = {'nla': (TAPSNlaIIIMolecule, NlaIIIFragment), 'chic': (TAPSCHICMolecule, CHICFragment),
                    'base': (TAPSMolecule, Fragment)}
        self.taps = TAPS()          # ONE instance for all molecules / contigs / conventions, as the taggers do
        self.fa = pysam.FastaFile(fasta_path)
        self.cached = CachedFasta(self.fa)   # the reference wrapper bamtagmultiome hands to the molecules
        self.refs = dict(contigs)
        self.header = pysam.AlignmentHeader.from_dict(
            {'HD': {'VN': '1.6'}, 'SQ': [{'SN': n, 'LN': len(s)} for n, s in contigs]})

    def run(self, tid, mol):
        """mol: abstract molecule {src, cls, conv, contig, frags:[{reads:[{mate,rev,start,cigar,seq,qual}]}], frag_kwargs}"""
        contig = mol['contig']
        ref = self.refs[contig]
        ref_upper = ref.upper()
        mcls, fcls = self.cls[mol['cls']]
        ev = {'ev': 'mol', 'tid': tid, 'src': mol['src'], 'cls': mol['cls'], 'conv': mol['conv'], 'contig': contig,
              'ref': list(ref), 'raised': '', 'strand': -1, 'frags': [], 'calls': [], 'n_frags_offered': len(mol['frags']),
              'pre': mol.get('pre', ''), 'refobj': mol.get('refobj', 'fasta'), 'history': mol.get('history', 'once'),
              'post': mol.get('post', 'none'), 'post_raised': '',
              'dr1': (mol.get('dove') or [0, 0])[0], 'dr2': (mol.get('dove') or [0, 0])[1], 'dove_given': mol.get('dove') is not None,
              'gen': json.dumps({'tags': mol.get('tags', {}), 'frag_kwargs': mol.get('frag_kwargs', {}),
                                 'unmap': mol.get('unmap', [])})}
        m, requeried = None, None
        try:
            frags = []
            for i, f in enumerate(mol['frags']):
                rds = {r['mate']: r for r in f['reads']}
                r1 = build_read(self.header, 'm%d_f%d' % (tid, i), contig, ref_upper, rds[1], rds.get(2), 'ACG',
                                mol.get('tags', {})) if 1 in rds else None
                r2 = build_read(self.header, 'm%d_f%d' % (tid, i), contig, ref_upper, rds[2], rds.get(1), 'ACG',
                                mol.get('tags', {})) if 2 in rds else None
                if i in mol.get('unmap', []) and r2 is not None:     # half-mapped pair: mate 2 carries no alignment
                    r2.is_unmapped = True
                    r2.cigarstring = None
                frags.append(fcls([r1, r2], **mol.get('frag_kwargs', {})))
            refobj = self.cached if mol.get('refobj') == 'cached' else self.fa
            hist = mol.get('history', 'once')
            mk = {}
            if mol.get('dove') is not None:     # non-default dove distances, as tapsTabulator / bam_to_methylation_bw pass them
                mk = {'methylation_consensus_kwargs': {'dove_R1_distance': mol['dove'][0], 'dove_R2_distance': mol['dove'][1]}}
            if hist == 'incremental':
                # history: start empty, finalise on the first fragment, extend, finalise again (no stale calls / tags may survive)
                m = mcls(None, reference=refobj, taps=self.taps, taps_strand=mol['conv'], **mk)
                m.add_fragment(frags[0])
                m.__finalise__()
                for fr in frags[1:]:
                    m.add_fragment(fr)
                if len(frags) > 1:
                    m.__finalise__()
            elif len(frags) == 1 and tid % 2:
                m = mcls(frags[0], reference=refobj, taps=self.taps, taps_strand=mol['conv'], **mk)   # a bare fragment, not a list
                m.__finalise__()
            else:
                m = mcls(frags, reference=refobj, taps=self.taps, taps_strand=mol['conv'], **mk)
                m.__finalise__()
            if hist == 'requery':
                # the other return path: the dictionary returned by a second obtain_methylation_calls()
                requeried = m.obtain_methylation_calls(**m.get_consensus_dictionaries_kwargs)   # as __finalise__ calls it
        except Exception as ex:  # a crash of the code under test on a legal input is an observation
            ev['raised'] = type(ex).__name__
            ev['raised_msg'] = str(ex)[:200]
        # what the taggers do next: write_tags() on the molecule's reads, or the molecule's tags on new (pseudo) reads
        tag_source = {}
        post = mol.get('post', 'none')
        if m is not None and not ev['raised'] and post != 'none':
            try:
                if post == 'write_tags':
                    m.write_tags()
                elif post == 'pseudo' and mol['cls'] != 'base':
                    originals = list(m.iter_reads())
                    copies = []
                    for r in originals:
                        c = pysam.AlignedSegment.fromstring(r.to_string(), self.header)
                        for t in ['XM', 'YC', 'XR', 'XG'] + TOT_TAGS:
                            c.set_tag(t, None)
                        copies.append(c)
                    m.write_tags_to_psuedoreads(copies)
                    tag_source = {id(r): c for r, c in zip(originals, copies)}
            except Exception as ex:
                ev['post_raised'] = type(ex).__name__
                tag_source = {}
        if m is not None:
            ev['strand'] = -1 if m.strand is None else int(bool(m.strand))
            for fr in m.fragments:
                reads = []
                for r in fr.reads:
                    if r is None or r.is_unmapped:
                        continue
                    tr = tag_source.get(id(r), r)     # the record that carries the tags to be judged
                    reads.append({'mate': 1 if r.is_read1 else 2, 'rev': bool(r.is_reverse), 'start': int(r.reference_start),
                                  'cigar': [[int(o), int(n)] for o, n in r.cigartuples],
                                  'seq': list(r.query_sequence), 'qual': [int(x) for x in r.query_qualities],
                                  'has_xm': bool(tr.has_tag('XM')),
                                  'xm': list(tr.get_tag('XM')) if tr.has_tag('XM') else [],
                                  'tot': {t: (int(tr.get_tag(t)) if tr.has_tag(t) else -1) for t in TOT_TAGS}})
                ev['frags'].append({'reads': reads})
            d = requeried if (not ev['raised'] and mol.get('history') == 'requery') else m.methylation_call_dict
            ev['dict_none'] = d is None
            for (c, p), v in sorted((d or {}).items()):
                ev['calls'].append({'contig': str(c), 'p': int(p), 'letter': str(v.get('context', '.')),
                                    'cons': str(v.get('consensus', '')), 'refbase': str(v.get('reference_base', ''))})
        return ev


    def contexts(self, tid0, contig, rng, n_obs):
        """the public lookup itself: TAPS.position_to_context at every position of a contig, with the true reference base as
        ref_base (so also bases that are neither C nor G) and observed bases in either case"""
        ref = self.refs[contig]
        out = []
        for p in range(len(ref)):
            for obs in rng.sample(['A', 'C', 'G', 'T', 'N', 'a', 'c', 'g', 't'], n_obs):
                handle = rng.choice(['fasta', 'cached'])
                ev = {'ev': 'ctx', 'tid': tid0 + len(out), 'src': 'position_to_context', 'contig': contig, 'ref': list(ref), 'p': p,
                      'obs': obs, 'refobj': handle, 'raised': '', 'symbol': '', 'context': ''}
                try:
                    ctx, sym = self.taps.position_to_context(chromosome=contig, position=p, ref_base=ref[p].upper(), observed_base=obs,
                                                             strand=rng.random() < 0.5,
                                                             reference=self.cached if handle == 'cached' else self.fa)
                    ev['symbol'] = str(sym)
                    ev['context'] = '' if ctx is None else str(ctx)
                except Exception as ex:
                    ev['raised'] = type(ex).__name__
                out.append(ev)
        return out


# ------------------------------------------------------------------------------------------------
# random molecules

def random_reference(rng):
    n = rng.choice([3, 5, 8, 12, 16, 20, 24, 30, 40, 60])
    style = rng.random()
    if style < 0.35:
        s = [rng.choice('ACGT') for _ in range(n)]
    elif style < 0.7:    # C/G rich: many targets in every context
        s = [rng.choice('CCGGCGAT') for _ in range(n)]
    else:                # repeats of CpG / CHG / CHH motifs
        motifs = ['CG', 'CCGG', 'CAG', 'CTG', 'CAA', 'CCC', 'GGG', 'TTG', 'CGCG', 'GC', 'CATG']
        s = []
        while len(s) < n:
            s += list(rng.choice(motifs))
        s = s[:n]
    # targets at the very ends of the contig (truncated contexts)
    for k in (0, 1, 2, n - 3, n - 2, n - 1):
        if rng.random() < 0.5:
            s[k] = rng.choice('CG')
    # non-ACGT letters
    if rng.random() < 0.4:
        for _ in range(rng.randint(1, 3)):
            s[rng.randrange(n)] = rng.choice('NNNRYSWKM')
    return s


def interval_choices(rng, n, anchors):
    """an interval [a,b) inside [0,n): ends drawn near the anchors (boundary coincidences) or anywhere"""
    def pick():
        if anchors and rng.random() < 0.7:
            return min(n, max(0, rng.choice(anchors) + rng.choice([-2, -1, 0, 0, 1, 2])))
        return rng.randint(0, n)
    for _ in range(50):
        a, b = pick(), pick()
        if a > b:
            a, b = b, a
        if b - a >= 1:
            return a, b
    return 0, n


def make_cigar(rng, length, allow_lead_clip, allow_trail_clip):
    """cigar consuming exactly `length` reference bases; returns list of [op,len]"""
    if length < 4 or rng.random() < 0.7:
        cig = [[0, length]]
    else:
        k = rng.randint(1, length - 2)
        kind = rng.random()
        if kind < 0.4:     # insertion
            cig = [[0, k], [1, rng.randint(1, 2)], [0, length - k]]
        elif kind < 0.8:   # deletion
            d = rng.randint(1, min(2, length - k - 1))
            cig = [[0, k], [2, d], [0, length - k - d]]
        else:              # both
            d = 1
            if length - k - d < 2:
                cig = [[0, length]]
            else:
                k2 = rng.randint(1, length - k - d - 1)
                cig = [[0, k], [2, d], [0, k2], [1, 1], [0, length - k - d - k2]]
    if allow_lead_clip and rng.random() < 0.15:
        cig = [[4, rng.randint(1, 3)]] + cig
    if allow_trail_clip and rng.random() < 0.15:
        cig = cig + [[4, rng.randint(1, 3)]]
    if allow_lead_clip and rng.random() < 0.08:      # hard clips are outermost and consume nothing
        cig = [[5, rng.randint(1, 4)]] + cig
    if allow_trail_clip and rng.random() < 0.08:
        cig = cig + [[5, rng.randint(1, 4)]]
    return cig


def synth_read(rng, ref_upper, target, meth, mate, rev, a, b, cigar, qual_style, keep_positions, err, n_positions=()):
    seq, p = [], a
    conv = 'T' if target == 'C' else 'A'
    for op, n in cigar:
        if op in (0, 7, 8):
            for _ in range(n):
                rb = ref_upper[p]
                if p in keep_positions:
                    base = rb if rb in 'ACGT' else 'A'
                elif rb == target and p in n_positions:
                    base = 'N'                                       # the sequencer's N exactly on a callable base
                elif rb == target:
                    base = conv if p in meth else target
                    x = rng.random()
                    if x < err:
                        base = rng.choice([c for c in 'ACGT' if c not in (target, conv)] + ['N'])
                    elif x < 2 * err:
                        base = target if base == conv else conv      # this read disagrees with the molecule
                elif rb in 'ACGT':
                    base = rb
                    if rng.random() < err:
                        base = rng.choice('ACGTN')                   # includes bogus G>A / C>T on the non-target base
                else:
                    base = rng.choice('ACGT')
                seq.append(base)
                p += 1
        elif op in (1, 4):
            seq += [rng.choice('ACGT') for _ in range(n)]
        elif op in (2, 3):
            p += n
    assert p == b, (p, b, cigar)
    if qual_style == 0:
        q = [30] * len(seq)
    elif qual_style == 1:
        q = [20] * len(seq)
    elif qual_style == 3:
        q = [0] * len(seq)                           # phred 0 ('!') is a legal quality
    else:
        q = [rng.choice([0, 10, 20, 30, 40]) for _ in seq]
    return {'mate': mate, 'rev': rev, 'start': a, 'cigar': cigar, 'seq': seq, 'qual': q}


def random_molecule(rng, k):
    """abstract description of one molecule + its own contig"""
    ref = random_reference(rng)
    n = len(ref)
    cls = rng.choice(['nla', 'chic', 'base'])
    conv = rng.choice(['F', 'R'])
    rev = rng.random() < 0.5
    target = ('G' if rev else 'C') if conv == 'F' else ('C' if rev else 'G')
    # read 1 interval (shared by all fragments of the molecule: same cut site)
    r1a, r1b = interval_choices(rng, n, [0, n])
    if r1b - r1a < 4 and n >= 8:
        if rng.random() < 0.5:
            r1a, r1b = (max(0, r1b - rng.randint(4, 12)), r1b)
        else:
            r1a, r1b = (r1a, min(n, r1a + rng.randint(4, 12)))
    keep = set()
    motif = cls == 'nla' and rng.random() < 0.75 and r1b - r1a >= 4
    if motif:   # NlaIII: read 1 starts with CATG (forward) / ends with CATG (reverse); planted into the reference
        at = r1a if not rev else r1b - 4
        for i, c in enumerate('CATG'):
            ref[at + i] = c
        keep = set(range(at, at + 4))
    if rng.random() < 0.15:   # soft-masked reference
        ref = [c.lower() if rng.random() < 0.5 else c for c in ref]
    ref_s = ''.join(ref)
    ref_upper = ref_s.upper()
    meth_p = rng.choice([0.0, 0.2, 0.5, 0.8, 1.0])
    meth = set(p for p in range(n) if ref_upper[p] == target and rng.random() < meth_p)
    err = rng.choice([0.0, 0.0, 0.03, 0.1])
    nfr = rng.choice([1, 1, 1, 2, 2, 3, 4])
    r1_cigar = make_cigar(rng, r1b - r1a, allow_lead_clip=rev and not motif, allow_trail_clip=not rev and not motif)
    # N calls ON target positions: in 15% of the molecules all fragments but one show N (both mates) at a third of the
    # targets, so the uninformative fragments outnumber the informative one (N never votes: the one fragment decides)
    n_pos, n_frags = set(), set()
    if rng.random() < 0.15:
        nfr = max(nfr, 3)
        n_pos = set(p for p in range(n) if ref_upper[p] == target and p not in keep and rng.random() < 0.35)
        n_frags = set(rng.sample(range(nfr), nfr - 1))
    frags = []
    for fidx in range(nfr):
        npos = n_pos if fidx in n_frags else ()
        qs1, qs2 = rng.choice([0, 1, 2, 2, 3]), rng.choice([0, 1, 2, 2, 3])
        # the 3' end of read 1 may differ between fragments; the 5' end (cut site) is shared
        if rng.random() < 0.5 and r1b - r1a > 5 and not motif:
            cut = rng.randint(1, r1b - r1a - 4)
            a1, b1 = (r1a, r1b - cut) if not rev else (r1a + cut, r1b)
            c1 = [[0, b1 - a1]]
        else:
            a1, b1, c1 = r1a, r1b, r1_cigar
        r1 = synth_read(rng, ref_upper, target, meth, 1, rev, a1, b1, [list(c) for c in c1], qs1, keep, err, npos)
        if rng.random() < 0.1:
            frags.append({'reads': [r1]})
            continue
        # read 2 faces read 1; its interval is drawn near the ends of read 1 and of the contig:
        # overlapping, contained, dove-tailed beyond the 5' end of read 1, read 1 running past read 2, disjoint
        a2, b2 = interval_choices(rng, n, [a1, b1, 0, n])
        c2 = make_cigar(rng, b2 - a2, allow_lead_clip=True, allow_trail_clip=True)
        # 3%: both mates on the same strand (not an inward-facing pair: such a fragment has no safe span and must not vote)
        r2 = synth_read(rng, ref_upper, target, meth, 2, rev if rng.random() < 0.03 else not rev, a2, b2, c2, qs2, set(), err, npos)
        frags.append({'reads': [r1, r2]})
    mol = {'src': 'random', 'cls': cls, 'conv': conv, 'contig': 'r%d' % k, 'ref': ref_s, 'frags': frags,
           'tags': {'lh': 'TA'} if cls == 'chic' else {}, 'refobj': rng.choice(['fasta', 'cached']),
           'history': rng.choice(['once', 'once', 'incremental', 'requery']),
           'post': rng.choice(['none', 'write_tags', 'pseudo']),
           # default (no kwargs), explicit zeros, small, the tabulators' 8, asymmetric
           'dove': rng.choice([None, None, None, [0, 0], [1, 1], [1, 0], [0, 1], [2, 3], [8, 8], [0, 8], [8, 1]])}
    if rng.random() < 0.02:
        # half-mapped pair (mate 2 unmapped): outside the statement's quantifier, recorded as an observation only
        pairs = [i for i, f in enumerate(frags) if len(f['reads']) == 2]
        if pairs:
            mol['unmap'] = [pairs[0]]
            mol['pre'] = 'unmapped_mate'
            mol['src'] = 'halfmapped'
    return mol


ODD_PLANS = [['A', 'odd', 'B'], ['A', 'odd', 'B', 'B'], ['odd', 'A'], ['A', 'odd'], ['odd', 'A', 'B', 'B'], ['A', 'B', 'odd', 'B'],
             ['odd', 'odd', 'A'], ['B', 'odd', 'A', 'A']]


def odd_order_molecule(rng, k):
    """a fragment whose mates lie on the same strand (no mate-overlap-safe span: it must not vote, and it must not keep the
    other fragments from voting) at every place in the insertion order; the ordinary fragments of the molecule DISAGREE
    (A: every target converted, B: none), so that a lost vote changes the consensus and not only the number of calls"""
    while True:
        ref = random_reference(rng)
        if len(ref) >= 20:
            break
    n = len(ref)
    ref_upper = ''.join(ref).upper()
    cls = rng.choice(['nla', 'base'])
    conv = rng.choice(['F', 'R'])
    rev = rng.random() < 0.5
    target = ('G' if rev else 'C') if conv == 'F' else ('C' if rev else 'G')
    if not rev:
        (a1, b1), (a2, b2) = (2, 14), (8, n - 2)
    else:
        (a1, b1), (a2, b2) = (n - 14, n - 2), (2, n - 8)
    every = set(p for p in range(n) if ref_upper[p] == target)
    frags = []
    for kind in rng.choice(ODD_PLANS):
        meth = set() if kind == 'B' else every
        r1 = synth_read(rng, ref_upper, target, meth, 1, rev, a1, b1, [[0, b1 - a1]], 0, set(), 0.0)
        r2 = synth_read(rng, ref_upper, target, meth, 2, rev if kind == 'odd' else not rev, a2, b2, [[0, b2 - a2]], 0, set(), 0.0)
        frags.append({'reads': [r1, r2]})
    return {'src': 'odd_fragment_order', 'cls': cls, 'conv': conv, 'contig': 'o%d' % k, 'ref': ''.join(ref), 'frags': frags,
            'tags': {}, 'frag_kwargs': {'check_motif': False} if cls == 'nla' else {}, 'refobj': rng.choice(['fasta', 'cached']),
            'history': rng.choice(['once', 'incremental']), 'post': 'none', 'dove': None}


def many_fragments_molecule():
    """ONE molecule of 257 fragments (vote counters must not be narrower than the number of fragments):
    position 1 (CGA): 256 fragments show the conversion, 1 does not            -> strict plurality of 256:1
    position 6 (CAG): outside the 257th fragment's safe span, converted in all -> exactly 256 agreeing observations"""
    ref = 'TCGATTCAGT'
    def frag(conv1, r2_end):
        b1 = list(ref[0:8])
        b2 = list(ref[2:r2_end])
        if conv1:
            b1[1] = 'T'
        b1[6] = 'T'
        if r2_end > 6:
            b2[6 - 2] = 'T'
        return {'reads': [{'mate': 1, 'rev': False, 'start': 0, 'cigar': [[0, 8]], 'seq': b1, 'qual': [30] * 8},
                          {'mate': 2, 'rev': True, 'start': 2, 'cigar': [[0, r2_end - 2]], 'seq': b2, 'qual': [30] * (r2_end - 2)}]}
    frags = [frag(True, 10) for _ in range(256)] + [frag(False, 5)]
    return {'src': 'many_fragments', 'cls': 'chic', 'conv': 'F', 'contig': 'many257', 'ref': ref, 'frags': frags,
            'tags': {'lh': 'TA'}, 'refobj': 'cached', 'history': 'once'}


# ------------------------------------------------------------------------------------------------
# scenarios generated by TLC (spec -> code)

def scenario_molecule(scn, k, src):
    ref = ''.join(scn['ref'])
    cls = ('chic', 'nla', 'base')[k % 3]
    frags = []
    for f in scn['frags']:
        frags.append({'reads': [{'mate': r['mate'], 'rev': r['rev'], 'start': r['start'], 'cigar': [[0, len(r['seq'])]],
                                 'seq': list(r['seq']), 'qual': list(r['qual'])} for r in f['reads']]})
    return {'src': src, 'cls': cls, 'conv': scn['conv'], 'contig': 'w_' + ref, 'ref': ref, 'frags': frags,
            'tags': {'lh': 'TA'} if cls == 'chic' else {},
            'frag_kwargs': {'check_motif': False} if cls == 'nla' else {},
            'refobj': ('fasta', 'cached')[(k // 3) % 2],
            'history': ('once', 'incremental', 'requery')[(k // 6) % 3],
            'post': ('none', 'write_tags', 'pseudo')[(k // 18) % 3],
            'dove': [scn['dr1'], scn['dr2']] if (scn.get('dr1') or scn.get('dr2') or k % 2) else None}


def replay_event(ev_path, out):
    """re-run the molecule recorded in one event (its reads as recorded: start, cigar, bases, qualities) through the real code"""
    with open(ev_path) as f:
        ev = json.load(f)
    gen = json.loads(ev.get('gen', '{}'))
    mol = {'src': ev.get('src', 'replay'), 'cls': ev['cls'], 'conv': ev['conv'], 'contig': ev['contig'], 'ref': ''.join(ev['ref']),
           'frags': [{'reads': [{k: r[k] for k in ('mate', 'rev', 'start', 'cigar', 'seq', 'qual')} for r in f['reads']]}
                     for f in ev['frags']],
           'tags': gen.get('tags', {}), 'frag_kwargs': gen.get('frag_kwargs', {}), 'unmap': gen.get('unmap', []),
           'pre': ev.get('pre', ''), 'refobj': ev.get('refobj', 'fasta'), 'history': ev.get('history', 'once'),
           'post': ev.get('post', 'none'), 'dove': [ev.get('dr1', 0), ev.get('dr2', 0)] if ev.get('dove_given') else None}
    contigs = [(mol['contig'], mol['ref'])]
    fasta = os.path.join(os.getcwd(), 'taps_replay_%d.fa' % os.getpid())
    write_fasta(fasta, contigs)
    runner = Runner(fasta, contigs)
    with open(out, 'w') as f:
        f.write(json.dumps(runner.run(ev.get('tid', 1), mol), separators=(',', ':')) + '\n')
    runner.fa.close()
    os.remove(fasta)
    os.remove(fasta + '.fai')


def main():
    if sys.argv[1] == '--replay':
        return replay_event(sys.argv[2], sys.argv[3])
    out, tier, seed = sys.argv[1], sys.argv[2], int(sys.argv[3])
    scn_files = sys.argv[4:]
    rng = random.Random(seed)
    n_random = 400 if tier == 'quick' else 20000
    mols = [random_molecule(rng, k) for k in range(n_random)]
    mols.append(many_fragments_molecule())
    mols += [odd_order_molecule(rng, k) for k in range(60 if tier == 'quick' else 2000)]
    for path in scn_files:
        with open(path) as f:
            d = json.load(f)
        for k, scn in enumerate(d['scenarios']):
            mols.append(scenario_molecule(scn, k, d['src']))
    contigs, seen = [], {}
    for m in mols:
        if m['contig'] not in seen:
            seen[m['contig']] = m['ref']
            contigs.append((m['contig'], m['ref']))
        else:
            assert seen[m['contig']] == m['ref']
    fasta = os.path.join(os.getcwd(), 'taps_ref_%d.fa' % os.getpid())
    write_fasta(fasta, contigs)
    runner = Runner(fasta, contigs)
    with open(out, 'w') as f:
        for tid, m in enumerate(mols, 1):
            ev = runner.run(tid, m)
            f.write(json.dumps(ev, separators=(',', ':')) + '\n')
        # the lookup called directly on the contigs of the first random molecules
        tid = len(mols) + 1
        for m in mols[:25 if tier == 'quick' else 1500]:
            if m['src'] in ('random', 'halfmapped'):
                for ev in runner.contexts(tid, m['contig'], rng, 3):
                    f.write(json.dumps(ev, separators=(',', ':')) + '\n')
                    tid += 1
    runner.fa.close()
    os.remove(fasta)
    os.remove(fasta + '.fai')


if __name__ == '__main__':
    main()
