"""Entry point: ./check <ID> [--tier quick|thorough] [--replay path]"""
import argparse
import importlib
import os
import sys
import traceback

sys.path.insert(0, os.path.dirname(os.path.abspath(__file__)))
import vlib  # noqa: E402


def main():
    ap = argparse.ArgumentParser()
    ap.add_argument('id')
    ap.add_argument('--tier', default=os.environ.get('VERIF_TIER') or 'quick', choices=['quick', 'thorough'])
    ap.add_argument('--replay', default=None)
    a = ap.parse_args()
    sys.path.insert(0, os.path.join(vlib.VERIF, 'checks'))
    try:
        mod = importlib.import_module(a.id)
        if a.replay:
            rc = mod.replay(a.replay)
        else:
            rc = mod.run(a.tier)
    except vlib.MachineryError as ex:
        print('MACHINERY-FAILURE %s: %s' % (a.id, ex), file=sys.stderr)
        rc = vlib.EXIT_MACHINERY
    except Exception:
        traceback.print_exc()
        print('MACHINERY-FAILURE %s: unexpected exception in the check itself' % a.id, file=sys.stderr)
        rc = vlib.EXIT_MACHINERY
    sys.stdout.flush()
    sys.exit(rc)


if __name__ == '__main__':
    main()
