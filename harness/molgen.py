"""Synthetic molecules for the C13 / C15 drivers: abstract description first, pysam reads derived from it.

A molecule description is
  {"chrom": "chr1", "frags": [ {"form": "pair"|"r1none"|"r1short"|"r2only",
                                "r1": {"start", "rev", "cigar": [{"op","n"}], "seq": [..], "q": [..]}, "r2": {...}} ]}
(a mate key is absent when the mate is None).  No judgement here."""
import array

import pysam

# >= 100000 bp: the tagger's contig-per-process job plan treats shorter contigs specially (that plan is C05's subject)
# two contigs of EQUAL length whose names are prefixes of each other
CONTIGS = [('chr1', 120000), ('chr11', 120000)]


def header():
    return pysam.AlignmentHeader.from_dict({'HD': {'VN': '1.6', 'SO': 'coordinate'},
                                            'SQ': [{'SN': n, 'LN': ln} for n, ln in CONTIGS]})


def make_reference(rng, n=120000):
    """Random reference with a 12-bp run of N every 997 bp (assembly gaps are part of real references)."""
    s = rng.choices('ACGT', k=n)
    for i in range(500, n - 20, 997):
        s[i:i + 12] = 'N' * 12
    return ''.join(s)


def soft_masked(ref, period=37):
    """The reference as a soft-masked genome: every third `period`-bp stretch in lower case (same bases)."""
    return ''.join(ref[i:i + period].lower() if (i // period) % 3 == 1 else ref[i:i + period] for i in range(0, len(ref), period))


def write_fasta(path, ref, softmask=True):
    text = soft_masked(ref) if softmask else ref
    with open(path, 'w') as f:
        for name, ln in CONTIGS:
            f.write('>%s\n' % name)
            for i in range(0, ln, 60):
                f.write(text[i:i + 60] + '\n')
    pysam.faidx(path)
    return path


def md_tag(ref, start, cigar, seq):
    """Canonical MD string of a read (needed by pysam for get_aligned_pairs(with_seq=True))."""
    out, run, qi, r = [], 0, 0, start
    for o in cigar:
        op, n = o['op'], o['n']
        if op == 'M':
            for k in range(n):
                if seq[qi + k] == ref[r + k]:
                    run += 1
                else:
                    out.append(str(run))
                    out.append(ref[r + k])
                    run = 0
            qi += n
            r += n
        elif op in ('I', 'S'):
            qi += n
        elif op == 'D':
            out.append(str(run))
            out.append('^' + ref[r:r + n])
            run = 0
            r += n
        elif op == 'N':
            r += n
    out.append(str(run))
    return ''.join(out)


def cigar_string(cigar):
    return ''.join('%d%s' % (o['n'], o['op']) for o in cigar)


def query_len(cigar):
    return sum(o['n'] for o in cigar if o['op'] in 'MIS')


def ref_len(cigar):
    return sum(o['n'] for o in cigar if o['op'] in 'MDN')


def aligned_positions(mate):
    """(query index, reference position) of the M operations - generator-side ground truth."""
    out, qi, r = [], 0, mate['start']
    for o in mate['cigar']:
        if o['op'] == 'M':
            out += [(qi + k, r + k) for k in range(o['n'])]
            qi += o['n']
            r += o['n']
        elif o['op'] in 'IS':
            qi += o['n']
        elif o['op'] in 'DN':
            r += o['n']
    return out


def build_read(hdr, ref, chrom, name, mate, is_r1, paired, mate_rev=None, tags=None, mapq=60):
    a = pysam.AlignedSegment(hdr)
    a.query_name = name
    a.query_sequence = ''.join(mate['seq'])
    a.query_qualities = array.array('B', mate['q'])
    flag = 0
    if paired:
        flag |= 0x1 | 0x2
        if mate_rev:
            flag |= 0x20
    if mate['rev']:
        flag |= 0x10
    flag |= 0x40 if is_r1 else 0x80
    a.flag = flag
    a.reference_id = hdr.get_tid(chrom)
    a.reference_start = mate['start']
    a.cigarstring = cigar_string(mate['cigar'])
    a.mapping_quality = mapq
    a.next_reference_id = -1
    a.next_reference_start = -1
    if not mate.get('nomd'):
        a.set_tag('MD', md_tag(ref, mate['start'], mate['cigar'], mate['seq']))
    for k, v in (tags or {}).items():
        a.set_tag(k, v)
    return a


def build_reads(hdr, ref, chrom, name, frag, tags=None):
    """-> the reads list handed to the Fragment constructor ([R1,R2] / [R1,None] / [R1] / [None,R2])."""
    r1, r2 = frag.get('r1'), frag.get('r2')
    paired = r1 is not None and r2 is not None
    a = build_read(hdr, ref, chrom, name, r1, True, paired, r2['rev'] if paired else None, tags) if r1 is not None else None
    b = build_read(hdr, ref, chrom, name, r2, False, paired, r1['rev'] if paired else None, tags) if r2 is not None else None
    if paired:
        a.next_reference_id, a.next_reference_start = b.reference_id, b.reference_start
        b.next_reference_id, b.next_reference_start = a.reference_id, a.reference_start
    if frag['form'] == 'r1short':
        return [a]
    if frag['form'] == 'r2unmapped':     # half-mapped pair: the second mate is unmapped and placed at its mate's position
        b = pysam.AlignedSegment(hdr)
        b.query_name = name
        b.query_sequence = 'ACGTACGT'
        b.query_qualities = array.array('B', [30] * 8)
        b.flag = 0x1 | 0x4 | 0x80 | (0x20 if r1['rev'] else 0)
        b.reference_id, b.reference_start = a.reference_id, a.reference_start
        b.next_reference_id, b.next_reference_start = a.reference_id, a.reference_start
        a.flag |= 0x1 | 0x8
        a.next_reference_id, a.next_reference_start = a.reference_id, a.reference_start
        for k, v in (tags or {}).items():
            b.set_tag(k, v)
    return [a, b]


def random_cigar(rng, length, allow_gaps=True):
    """CIGAR with `length` query bases. Mostly one M block; sometimes D / I / N / S inside."""
    if length < 4 or not allow_gaps or rng.random() < 0.8:
        return [{'op': 'M', 'n': length}]
    kind = rng.choice('DINSH')
    if kind == 'S':
        k = rng.randint(1, 2)
        return rng.choice([[{'op': 'S', 'n': k}, {'op': 'M', 'n': length - k}],
                           [{'op': 'M', 'n': length - k}, {'op': 'S', 'n': k}]])
    if kind == 'H':     # hard clip: consumes neither query nor reference
        k = rng.randint(1, 30)
        return rng.choice([[{'op': 'H', 'n': k}, {'op': 'M', 'n': length}], [{'op': 'M', 'n': length}, {'op': 'H', 'n': k}],
                           [{'op': 'H', 'n': k}, {'op': 'S', 'n': 1}, {'op': 'M', 'n': length - 1}]])
    a = rng.randint(1, length - 2)
    if kind == 'I':
        k = rng.randint(1, min(2, length - a - 1))
        return [{'op': 'M', 'n': a}, {'op': 'I', 'n': k}, {'op': 'M', 'n': length - a - k}]
    k = rng.randint(1, 4)
    return [{'op': 'M', 'n': a}, {'op': kind, 'n': k}, {'op': 'M', 'n': length - a}]
