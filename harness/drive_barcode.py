"""C03 driver: records what the real BarcodeParser answers.
usage: drive_barcode.py <out.ndjson> <tier> <seed> <scenarios.json|-> [small|shipped|both]

(a) "small": every TLC-generated scenario (spec/Barcode.tla initial states: barcode directory + constructor arguments)
    is materialised as barcode files in a temp directory, loaded by the real BarcodeParser (eager / lazy / addBarcode+expand
    API as demux.py -si does) and ALL strings over ACGTN of the whitelist length are looked up.
(b) "shipped": the shipped whitelists (independent reader below) x k, queries = members, 1/2/3-neighbours, strings on the
    paths between near whitelist pairs (the tie / almost-tie coincidences), N-containing and random strings.
Only drives and records; TLC (Trace_Barcode) judges."""
import gzip
import json
import os
import random
import shutil
import sys
import tempfile

CODE = {'A': 1, 'C': 2, 'G': 3, 'T': 4, 'N': 5}
LET = {v: k for k, v in CODE.items()}


def enc(s):
    return [CODE.get(c, ord(c)) for c in s]


def dec(codes):
    return ''.join(LET[c] for c in codes)


def observe(parser, q, alias):
    """One call of the observed entry point -> raw observation (no judgement)."""
    o = {'q': enc(q), 'none': [True, True, True], 'idx': '', 'bc': [], 'd': -1, 'raised': ''}
    try:
        if len(q) % 2 or sum(map(ord, q)) % 2:     # both call forms in use (demultiplexers call with keywords)
            res = parser.getIndexCorrectedBarcodeAndHammingDistance(alias=alias, barcode=q)
        else:
            res = parser.getIndexCorrectedBarcodeAndHammingDistance(q, alias)
    except Exception as ex:  # a raising lookup is an observation
        o['raised'] = type(ex).__name__
        return o
    if not isinstance(res, tuple) or len(res) != 3:
        o['raised'] = 'NotATriple'
        return o
    idx, bc, d = res
    if idx is not None:
        o['none'][0] = False
        o['idx'] = str(idx)
    if bc is not None:
        o['none'][1] = False
        o['bc'] = enc(bc) if isinstance(bc, str) else [-1]
    if d is not None:
        o['none'][2] = False
        o['d'] = int(d) if isinstance(d, int) else -2
    return o


class Failed:
    """Stands for a parser whose construction / first touch raised on a legal whitelist: every lookup then reports that
    exception as its observation (a raise of the code under test is for TLC to judge, never a driver crash)."""

    def __init__(self, ex):
        self.ex = ex

    def getIndexCorrectedBarcodeAndHammingDistance(self, *a, **kw):
        raise self.ex


def guarded(fn):
    try:
        return fn()
    except Exception as ex:
        return Failed(ex)


def all_strings(L):
    import itertools
    return [''.join(t) for t in itertools.product('ACGTN', repeat=L)]


def idx_text(n, salt):
    # both index styles the parser distinguishes: digits (converted to int) and names
    # index 0 stays the integer 0 in two of three scenarios (a falsy cell index must still be an index)
    return str(n) if (n + salt) % 3 else 'c%d' % n


def run_small(scn, tid, rng, root, BarcodeParser):
    A, L, k, lazy = scn['A'], scn['L'], scn['k'], scn['lazy']
    letters = rng.sample([1, 2, 3, 4, 5], A)          # model letter i -> code letters[i-1]
    tr = lambda bc: ''.join(LET[letters[x - 1]] for x in bc)
    files = scn['files']
    d = tempfile.mkdtemp(prefix='bcdir_', dir=root)
    # alias names whose end looks like a piece of the '.bc' extension (b, c, '.', 'bc'); the alias of a file is its name
    # without '.bc' / '.bc.gz' / '.tsv'. 'a.bcd' (a '.bc' in the middle) is registered by the parser under another name
    # ('ad'): recorded, judged as outside the statement.
    alias = ('w%d' % (tid % 7), 'mylib', 'plate_c', 'scb', 'lib.', 'xbc', 'pl.b', 'c')[tid % 8]
    alias_kind = 'plain'
    if tid % 50 == 7:
        alias, alias_kind = 'a.bcd', 'mid_bc'
    lazyarg = scn.get('lazyarg', 'this' if lazy else 'none')
    wl = []
    via = 'file'
    if len(files) == 1 and lazyarg == 'none' and tid % 5 == 0:
        via = 'api'
    names = [alias + ('.bc.gz' if tid % 7 == 3 else '.bc'), alias + '.tsv']
    # (two files, one alias: which one glob lists first does not matter for the P-level truth, the union)
    fmts = []
    for fno, f in enumerate(files):
        lines = []
        for i, bc in enumerate(f['bcs']):
            s = tr(bc)
            if f['fmt'] == 'bc':
                lines.append(s + (' ' if tid % 4 == 1 else ''))     # one column followed by a blank: the split(' ') arm of the parser
                wl.append([enc(s), str(f['idx'][i])])
            else:
                it = idx_text(f['idx'][i], tid)
                sep = '\t' if (tid + i) % 2 else ' '
                lines.append((s + sep + it if f['fmt'] == 'bc_idx' else it + sep + s) + (' ' if tid % 4 == 1 else ''))   # trailing blank as in lk_virus1.bc
                wl.append([enc(s), it])
        fmts.append(f['fmt'])
        if via == 'file':
            p = os.path.join(d, names[fno])
            eol = '\r\n' if tid % 5 == 2 else '\n'                 # CRLF files too
            data = eol.join(lines) + (eol if tid % 2 and lines else '')   # with and without trailing newline; an empty whitelist is an
            #                                                              empty file (a blank line is refused loudly by the parser)
            if p.endswith('.gz'):
                with gzip.open(p, 'wt', newline='') as h:
                    h.write(data)
            else:
                with open(p, 'w', newline='') as h:
                    h.write(data)
    if via == 'file' and (tid % 4 == 0 or lazyarg == 'other'):
        # another alias in the same directory whose name extends this one, with the one barcode that would change most
        # answers if the two whitelists were mixed up
        with open(os.path.join(d, alias + 'x.bc'), 'w') as h:
            h.write('N' * L + '\n' + 'A' * L + '\n')
    touch = scn.get('touch', 'lookup')

    def make():
        if via == 'api':
            parser = BarcodeParser(d)   # empty directory
            for bc, it in wl:
                parser.addBarcode(alias, barcode=dec(bc), index=int(it) if it.isdigit() else it)
            parser.expand(k, alias=alias)
            if tid % 10 == 0:
                parser.expand(k, alias=alias)      # expanding twice is idempotent
        else:
            # the lazyLoad argument as seen from this alias: None / names this alias (alone or with a name matching no file) or '*' /
            # names only OTHER aliases: exactly the tuple demux.py passes, or the decoy alias of this directory (a really mixed parser)
            if lazyarg == 'none':
                lz = None
            elif lazyarg == 'other':
                lz = ('10x_3M-february-2018',) if tid % 2 else (alias + 'x', 'nofile')
            else:
                lz = ((alias,), '*', (alias, 'nofile'))[tid % 3]
            parser = BarcodeParser(d, hammingDistanceExpansion=k, lazyLoad=lz)
        if tid % 6 == 1:
            # read-only accessors used for reporting, on a possibly still pending alias, before anything else: the lookups that follow
            # (and the lazy load they trigger) must not be disturbed by the empty table entries these calls create
            parser.getTargetCount(alias)
            parser.getBarcodeMapping()
        if lazy and touch == 'getitem':
            parser[alias]          # __getitem__: the other public access that loads a pending alias (before any lookup)
        elif not lazy and via == 'file' and tid % 6 == 2:
            parser[alias]          # ... and on an alias that is already loaded
        return parser
    parser = guarded(make)
    qs = all_strings(L)
    rng.shuffle(qs)
    ans = [observe(parser, q, alias) for q in qs]
    again = [observe(parser, q, alias) for q in qs[:3] + qs[-1:]]       # history: the same parser asked again
    shutil.rmtree(d, True)
    return {'ev': 'small', 'again': again, 'gz': via == 'file' and names[0].endswith('.gz'), 'load_raised': type(parser.ex).__name__ if isinstance(parser, Failed) else '', 'tid': tid, 'L': L, 'k': k, 'lazy': lazy, 'lazyarg': lazyarg, 'alias': alias,
            'alias_kind': alias_kind, 'touch': touch, 'via': via, 'nfiles': len(files), 'fmt': fmts,
            'wl': wl, 'ans': ans}


# ------------------------------------------------------------------------------------------------
# shipped whitelists

def read_whitelist(path):
    """Independent reader: [(barcode, index_text)] ; None when the barcode column cannot be told."""
    raw = (gzip.open(path, 'rt') if path.endswith('.gz') else open(path)).read()
    rows = [ln.split() for ln in raw.split('\n') if ln.strip()]
    if not rows:
        return None
    isbc = lambda t: all(c in 'ACGTNX+' for c in t)     # '+' joins the halves of a dual index, XXXXXX is a placeholder row
    if all(len(r) == 1 for r in rows):
        ent = [(r[0], str(i + 1)) for i, r in enumerate(rows)]
    elif all(len(r) == 2 for r in rows):
        c0, c1 = all(isbc(r[0]) for r in rows), all(isbc(r[1]) for r in rows)
        if c0 == c1:
            return None
        ent = [(r[0], r[1]) if c0 else (r[1], r[0]) for r in rows]
    else:
        return None
    assert len(ent) == len(rows)
    return ent


def neighbours(rng, b, n):
    pos = rng.sample(range(len(b)), n)
    s = list(b)
    for p in pos:
        s[p] = rng.choice([c for c in 'ACGTN' if c != s[p]])
    return ''.join(s)


def hd(a, b):
    return sum(x != y for x, y in zip(a, b))


def gen_queries(rng, ent, n):
    bcs = [b for b, _ in ent]
    L = len(bcs[0])
    same = [b for b in bcs if len(b) == L]
    qs = []
    per = max(1, n // 8)
    qs += rng.sample(same, min(per, len(same)))                                   # members
    for b in rng.sample(same, min(max(1, per // 8), len(same))):                 # full 1-neighbourhood of a few members
        for p in range(L):
            for c in 'ACGTN':
                if c != b[p]:
                    qs.append(b[:p] + c + b[p + 1:])
    for dist in (1, 2, 2, 3):
        qs += [neighbours(rng, rng.choice(same), min(dist, L)) for _ in range(per)]
    # paths between near pairs: every prefix of the edit sequence b1 -> b2 (ties and almost-ties)
    for _ in range(per):
        b1 = rng.choice(same)
        near = sorted(same, key=lambda x: (hd(b1, x), x))[1:4]
        if not near:
            continue
        b2 = rng.choice(near)
        diff = [i for i in range(L) if b1[i] != b2[i]]
        rng.shuffle(diff)
        s = list(b1)
        for i in diff[:-1]:
            s[i] = b2[i]
            qs.append(''.join(s))
            if rng.random() < 0.3:       # the same point pushed one step off the path
                qs.append(neighbours(rng, ''.join(s), 1))
    qs += [''.join(rng.choice('ACGTN') for _ in range(L)) for _ in range(per // 2)]
    qs += [''.join(rng.choice('NNNACGT') for _ in range(L)) for _ in range(per // 4)]
    qs += ['N' * L, same[0][:-1] + 'N']
    rng.shuffle(qs)
    return qs[:n]


def replay(out, ev, BarcodeParser, md):
    """Re-run the real code on the input of a recorded event (./check C03 --replay)."""
    root = tempfile.mkdtemp(prefix='c03r_', dir=os.getcwd())
    with open(out, 'w') as f:
        if ev['ev'] == 'small':
            # the recorded whitelist (codes 1..5, index texts) is replayed as one scenario per original file layout
            n = ev['nfiles']
            per = len(ev['wl']) // n
            files = []
            for fno in range(n):
                part = ev['wl'][fno * per:(fno + 1) * per] if fno < n - 1 else ev['wl'][fno * per:]
                files.append({'fmt': ev['fmt'][fno], 'bcs': [b for b, _ in part], 'idx': [i for _, i in part]})
            d = tempfile.mkdtemp(prefix='bcdir_', dir=root)
            alias = ev.get('alias', 'w')
            def make():
                if ev['via'] == 'api':
                    parser = BarcodeParser(d)
                    for b, it in ev['wl']:
                        parser.addBarcode(alias, barcode=dec(b), index=int(it) if it.isdigit() else it)
                    parser.expand(ev['k'], alias=alias)
                else:
                    for fno, fl in enumerate(files):
                        lines = [dec(b) if fl['fmt'] == 'bc' else (dec(b) + '\t' + it if fl['fmt'] == 'bc_idx' else it + ' ' + dec(b))
                                 for b, it in zip(fl['bcs'], fl['idx'])]
                        gz = ev.get('gz') and fno == 0
                        with (gzip.open(os.path.join(d, alias + '.bc.gz'), 'wt') if gz else
                              open(os.path.join(d, alias + ('.bc', '.tsv')[fno]), 'w')) as h:
                            h.write('\n'.join(lines) + ('\n' if lines else ''))
                    la = ev.get('lazyarg', 'this' if ev['lazy'] else 'none')
                    parser = BarcodeParser(d, hammingDistanceExpansion=ev['k'],
                                           lazyLoad={'none': None, 'other': ('10x_3M-february-2018',)}.get(la, (alias,)))
                    if ev['lazy'] and ev.get('touch') == 'getitem':
                        parser[alias]
                return parser
            parser = guarded(make)
            e2 = dict(ev)
            e2['ans'] = [observe(parser, dec(a['q']), alias) for a in ev['ans']]
            e2['again'] = [observe(parser, dec(a['q']), alias) for a in ev.get('again', [])]
            f.write(json.dumps(e2) + '\n')
        else:
            folder = os.path.join(os.path.dirname(md.__file__), ev['dir'])
            path = [p for p in sorted(os.listdir(folder))
                    if os.path.splitext(p)[0].replace('.gz', '').replace('.bc', '') == ev['alias']][0]
            ent = read_whitelist(os.path.join(folder, path))
            def make():
                parser = BarcodeParser(folder, hammingDistanceExpansion=ev['k'], lazyLoad='*')
                if ev.get('touch') == 'getitem':
                    parser[ev['alias']]
                return parser
            parser = guarded(make)
            f.write(json.dumps({'ev': 'wl', 'tid': 0, 'alias': ev['alias'], 'dir': ev['dir'], 'k': ev['k'],
                                'entries': [[enc(b), i] for b, i in ent]}) + '\n')
            o = observe(parser, ''.join(LET[c] if c in LET else chr(c) for c in ev['q']), ev['alias'])
            o.update(ev='q', tid=ev['tid'], alias=ev['alias'], dir=ev['dir'], k=ev['k'])
            f.write(json.dumps(o) + '\n')
    shutil.rmtree(root, True)


def main():
    out, tier, seed = sys.argv[1], sys.argv[2], int(sys.argv[3])
    if tier == 'replay':
        from singlecellmultiomics.barcodeFileParser.barcodeFileParser import BarcodeParser
        import singlecellmultiomics.modularDemultiplexer as md
        import logging
        logging.disable(logging.CRITICAL)
        return replay(out, json.load(open(sys.argv[4])), BarcodeParser, md)
    scn_file = sys.argv[4] if len(sys.argv) > 4 else '-'
    what = sys.argv[5] if len(sys.argv) > 5 else 'both'
    rng = random.Random(seed)
    from singlecellmultiomics.barcodeFileParser.barcodeFileParser import BarcodeParser
    import singlecellmultiomics.modularDemultiplexer as md
    import logging
    logging.disable(logging.CRITICAL)
    root = tempfile.mkdtemp(prefix='c03_', dir=os.getcwd())
    tid = 0
    with open(out, 'w') as f:
        def emit(e):
            f.write(json.dumps(e, separators=(',', ':')) + '\n')

        if what in ('small', 'both') and scn_file != '-':
            for scn in json.load(open(scn_file)):
                tid += 1
                emit(run_small(scn, tid, rng, root, BarcodeParser))

        if what in ('shipped', 'both'):
            base = os.path.dirname(md.__file__)
            nq = int(os.environ.get('C03_NQ', 200 if tier == 'quick' else 1500))
            plan = [('barcodes', a) for a in ('maya_384NLA', 'celseq2', 'lennart96NLA', 'DamID2')] + \
                   [('indices', 'illumina_merged_ThruPlex48S_RP')]
            if tier != 'quick':
                plan += [('barcodes', a) for a in ('celseq1', 'CS2_scattered', 'DamID2_scattered', 'maya_mspj1', 'scartrace',
                                                    'nla_bisulfite', 'illumina_RP_indices')] + \
                        [('indices', a) for a in ('illumina_TruSeq_indices', 'illumina_i7_indices', 'illumina_merged_iPCR_RP')]
            parsers = {}
            for sub, alias in plan:
                folder = os.path.join(base, sub)
                paths = [p for p in sorted(os.listdir(folder))
                         if os.path.splitext(p)[0].replace('.gz', '').replace('.bc', '') == alias]
                if len(paths) != 1:
                    continue
                ent = read_whitelist(os.path.join(folder, paths[0]))
                if ent is None:
                    continue
                for k in (0, 1, 2):
                    # one parser per (directory, k) serves all its aliases one after the other (as one demultiplexer run does)
                    if (sub, k) not in parsers:
                        if k == 1 and sub == 'barcodes':     # exactly as demux.py builds its barcode parser (mixed lazy / eager)
                            parsers[(sub, k)] = guarded(lambda: BarcodeParser(hammingDistanceExpansion=k, barcodeDirectory=folder,
                                                                              lazyLoad=("10x_3M-february-2018",)))
                        elif k == 1:                          # ... and its index parser (all eager)
                            parsers[(sub, k)] = guarded(lambda: BarcodeParser(hammingDistanceExpansion=k, barcodeDirectory=folder))
                        else:
                            parsers[(sub, k)] = guarded(lambda: BarcodeParser(folder, hammingDistanceExpansion=k, lazyLoad='*'))
                    parser = parsers[(sub, k)]
                    touch = 'getitem' if k == 2 else 'lookup'      # first access to the lazy alias
                    if touch == 'getitem' and not isinstance(parser, Failed):
                        try:
                            parser[alias]
                        except Exception as ex:      # this alias cannot be loaded: its lookups report the exception
                            parser = Failed(ex)
                    tid += 1
                    emit({'ev': 'wl', 'tid': tid, 'alias': alias, 'dir': sub, 'k': k, 'entries': [[enc(b), i] for b, i in ent]})
                    for q in gen_queries(rng, ent, nq):
                        tid += 1
                        o = observe(parser, q, alias)
                        o.update(ev='q', tid=tid, alias=alias, dir=sub, k=k, touch=touch)
                        emit(o)
    shutil.rmtree(root, True)


if __name__ == '__main__':
    main()
