"""C13 driver: real Molecule.get_consensus on synthetic molecules built from pysam reads.
usage: drive_consensus.py <out.ndjson> <tier> <seed> [<scenarios.json>] [--replay <event.json>]
Only drives and records; TLC (Trace_Consensus) judges.

Every run builds fresh reads / Fragment objects / a fresh Molecule from the abstract description, adds the
fragments in the given order through Molecule.add_fragment and records the dictionary returned by
get_consensus(dove_safe=...)."""
import itertools
import json
import random
import sys

import molgen

QUALS = [10, 20, 30]


def gen_bases(rng, truth, alt, positions, clean=False):
    out = []
    for p in positions:
        x = rng.random()
        if clean or x < 0.55:
            out.append(truth[p])
        elif x < 0.85:
            out.append(alt[p])
        elif x < 0.92:
            out.append(rng.choice('ACGT'))
        else:
            out.append('N')
    return out


class Alt:
    """The molecule's alternative (error) base per reference position, computed on demand."""
    def __init__(self, ref, k):
        self.ref, self.k = ref, k

    def __getitem__(self, p):
        c = self.ref[p]
        return 'ACGT'[('ACGT'.index(c) + self.k) % 4] if c in 'ACGT' else 'A'


def gen_mate(rng, ref, alt, start, length, rev, gaps=True):
    cigar = molgen.random_cigar(rng, length, gaps)
    mate = {'start': start, 'rev': rev, 'cigar': cigar, 'seq': ['A'] * length, 'q': [0] * length}
    # bases: aligned ones derive from the molecule's truth/alt at the reference position, others random
    pos_of = dict(molgen.aligned_positions(mate))
    seq = []
    for qi in range(length):
        if qi in pos_of:
            seq.append(gen_bases(rng, ref, alt, [pos_of[qi]])[0])
        else:
            seq.append(rng.choice('ACGT'))
    mate['seq'] = seq
    if rng.random() < 0.4:
        q = rng.choice(QUALS)
        mate['q'] = [q] * length
    else:
        mate['q'] = [rng.choice(QUALS + [rng.randint(0, 41)] * (rng.random() < 0.1)) for _ in range(length)]
    return mate


def gen_molecule(rng, ref, tier):
    """Abstract molecule: all fragments share the orientation of their first mate (as in a real molecule)."""
    alt = Alt(ref, rng.randint(1, 3))
    rev = rng.random() < 0.5
    span = rng.randint(6, 30)
    origin = rng.randint(100, 3500)
    clen = molgen.CONTIGS[0][1]
    edge = rng.random()
    if edge < 0.06:
        origin, rev = 0, False              # first mates start at reference position 0 (a falsy coordinate)
    elif edge < 0.10:
        origin, rev = clen - span - 2, True  # reverse first mates end exactly at the contig end
    flavour = rng.choices(['mixed', 'allN', 'q0'], [0.9, 0.05, 0.05])[0]   # fragments that are all N / all quality 0
    n = rng.choice([1, 1, 2, 2, 3, 3, 4, 4, 5, 6, 7, 8, 10, 12])
    frags = []
    # R2-only fragments / one-element read lists are outside the property's quantifier: only a few molecules
    # carry them (observation counter), all others are judged
    special = rng.choices(['none', 'r2only', 'r1short', 'nomd', 'r2unmapped'], [0.88, 0.04, 0.02, 0.03, 0.03])[0]
    for k in range(n):
        l1 = rng.randint(3, 14)
        s1 = origin + rng.randint(0, 2) if not rev else origin + span - l1 + rng.randint(0, 2)
        if rev and edge < 0.10 and edge >= 0.06:
            s1 = clen - l1
        r1 = gen_mate(rng, ref, alt, s1, l1, rev, gaps=not (rev and 0.06 <= edge < 0.10))
        e1 = s1 + molgen.ref_len(r1['cigar'])
        l2 = rng.randint(3, 14)
        x = rng.random()
        if not rev:   # R1 forward: R2 downstream, reverse; dove-tail: R2 starts before R1 / R1 ends after R2
            s2 = rng.choice([s1 - rng.randint(1, 4), s1, s1 + rng.randint(0, l1), e1, e1 + rng.randint(1, 6), e1 - l2 - rng.randint(0, 3)])
        else:
            s2 = rng.choice([s1 - l2, s1 - l2 + rng.randint(1, l2), s1, s1 + rng.randint(1, 4), s1 - l2 - rng.randint(1, 6), e1 - rng.randint(0, 3)])
        s2 = min(max(0, s2), clen - l2 - 6)
        r2rev = (not rev) if x < 0.93 else rev       # same-orientation mates: not "inwards facing"
        r2 = gen_mate(rng, ref, alt, s2, l2, r2rev)
        if flavour != 'mixed' and (k == 0 or rng.random() < 0.5):
            for mt in (r1, r2):
                if flavour == 'allN':
                    mt['seq'] = ['N'] * len(mt['seq'])
                else:
                    mt['q'] = [0] * len(mt['q'])
        form = rng.choices(['pair', 'r1none'], [0.7, 0.3])[0]
        if special in ('r2only', 'r1short', 'r2unmapped') and (k == 0 or rng.random() < 0.2):
            form = special
        f = {'form': form}
        if special == 'nomd':     # reads without the optional MD tag (all fragments of the molecule)
            f['nomd'] = True
            r1['nomd'] = True
            r2['nomd'] = True
        if form in ('pair', 'r1none', 'r1short', 'r2unmapped'):
            f['r1'] = r1
        if form == 'pair':
            f['r2'] = r2
        if form == 'r2only':
            r2['rev'] = not rev
            f['r2'] = r2
        frags.append(f)
    return {'chrom': rng.choice([c for c, _ in molgen.CONTIGS]), 'frags': frags}


class Runner:
    # see run() / run_mixed()
    def __init__(self):
        from singlecellmultiomics.molecule import Molecule
        from singlecellmultiomics.fragment import Fragment
        self.Molecule, self.Fragment = Molecule, Fragment
        self.hdr = molgen.header()
        self.forced = 0

    def query(self, m, dove, path):
        """One call of get_consensus on molecule m through one of its two return shapes. Total on malformed return values: the
        raw shape (type name, length, type of the first element) is always recorded; the consensus list only when the value
        has the documented shape (a dict for the plain call, a 3-tuple whose first element is a dict otherwise)."""
        try:
            if path == 'plain':
                ret = m.get_consensus(dove_safe=dove)
            else:   # (consensus, phred_scores, consensii) - the shape the TAPS caller uses
                ret = m.get_consensus(dove_safe=dove, with_probs_and_obs=True)
        except Exception as ex:  # a crash of the code under test is an observation
            return {'raised': type(ex).__name__}
        out = {'rtype': type(ret).__name__, 'rlen': len(ret) if hasattr(ret, '__len__') else -1, 'first_type': ''}
        cons = ret
        if path != 'plain':
            if isinstance(ret, tuple) and len(ret) > 0:
                out['first_type'] = type(ret[0]).__name__
                cons = ret[0]
            else:
                cons = None
        if isinstance(cons, dict):
            try:
                out['consensus'] = [{'c': str(k[0]), 'pos': int(k[1]), 'b': str(v)} for k, v in cons.items()]
            except Exception:      # keys / values that are not ((contig, position), base)
                out['malformed_entries'] = True
        return out

    def run_mixed(self, ref, mol, order, first):
        """The SAME molecule object (same Fragment objects) queried with dove_safe=first and then with the other setting, through
        both return shapes each: a per-fragment or per-molecule memo that forgets the dove_safe argument shows up here."""
        m = self.Molecule()
        for k, i in enumerate(order):
            reads = molgen.build_reads(self.hdr, ref, mol['chrom'], 'f%d_%d' % (i, k), mol['frags'][i - 1],
                                       tags={'SM': 'cellA', 'RX': 'ACG', 'MX': 'verif'})
            frag = self.Fragment(reads, assignment_radius=100000, umi_hamming_distance=0)
            if not m.add_fragment(frag):
                m._add_fragment(frag)
        out = []
        for j, dove in enumerate((first, not first)):
            for path in ('plain', 'probs'):
                out.append(dict(kind='alt', path=path, dove=dove, order=order, run_order=order, run_kind='mixed', mixed_first=first,
                                incr=False, merge=False, requeried=j > 0 or path == 'probs', **self.query(m, dove, path)))
        return out

    def run(self, ref, mol, order, dove, kind, incremental=False, probs=True, merge=False):
        """Build a fresh molecule, add the fragments in `order`. Returns the list of recorded queries:
        incremental: after EVERY addition the same object is queried through both return shapes (kind "inc", order = prefix);
        at the end the plain shape (kind as given) and, with probs, the with_probs_and_obs shape (kind "alt")."""
        out = []
        m = self.Molecule()
        common = {'dove': dove, 'run_order': order, 'run_kind': kind, 'incr': incremental, 'merge': merge}
        if merge:
            # the other way a molecule grows: two molecules built separately, the first queried, then Molecule.add_molecule
            half = max(1, len(order) // 2)
            parts = []
            for lo, hi in ((0, half), (half, len(order))):
                p = self.Molecule()
                for k in range(lo, hi):
                    reads = molgen.build_reads(self.hdr, ref, mol['chrom'], 'f%d_%d' % (order[k], k), mol['frags'][order[k] - 1],
                                               tags={'SM': 'cellA', 'RX': 'ACG', 'MX': 'verif'})
                    p._add_fragment(self.Fragment(reads, assignment_radius=100000, umi_hamming_distance=0)) if len(p) else \
                        p.add_fragment(self.Fragment(reads, assignment_radius=100000, umi_hamming_distance=0))
                parts.append(p)
            m = parts[0]
            for path in ('plain', 'probs'):
                out.append(dict(common, kind='inc', path=path, order=order[:half], requeried=path == 'probs', **self.query(m, dove, path)))
            m.add_molecule(parts[1])
            assert len(m) == len(order)
            out.append(dict(common, kind=kind, path='plain', order=order, requeried=True, **self.query(m, dove, 'plain')))
            out.append(dict(common, kind='alt', path='probs', order=order, requeried=True, **self.query(m, dove, 'probs')))
            return out
        for k, i in enumerate(order):
            reads = molgen.build_reads(self.hdr, ref, mol['chrom'], 'f%d_%d' % (i, k), mol['frags'][i - 1],
                                       tags={'SM': 'cellA', 'RX': 'ACG', 'MX': 'verif'})
            frag = self.Fragment(reads, assignment_radius=100000, umi_hamming_distance=0)
            if not m.add_fragment(frag):
                self.forced += 1
                m._add_fragment(frag)
            if incremental and k < len(order) - 1:
                for path in ('plain', 'probs'):
                    out.append(dict(common, kind='inc', path=path, order=order[:k + 1], requeried=k > 0 or path == 'probs',
                                    **self.query(m, dove, path)))
        assert len(m) == len(order)
        req = incremental and len(order) > 1
        out.append(dict(common, kind=kind, path='plain', order=order, requeried=req, **self.query(m, dove, 'plain')))
        if probs:
            out.append(dict(common, kind='alt', path='probs', order=order, requeried=True, **self.query(m, dove, 'probs')))
        return out


def scenario_to_mol(scn, offset=200):
    """TLC fragment (Consensus.tla FragU element) -> molecule description. Model quality 1,2 -> phred 20,30."""
    def mate(m):
        c = m['c']
        if isinstance(c, dict):
            items = sorted((int(k), v) for k, v in c.items())
        else:
            items = list(enumerate(c, start=1))
        assert [p for p, _ in items] == list(range(m['s'], m['e'] + 1))
        return {'start': offset + m['s'], 'rev': bool(m['rev']), 'cigar': [{'op': 'M', 'n': len(items)}],
                'seq': [v[0] for _, v in items], 'q': [10 + 10 * v[1] for _, v in items]}
    frags = []
    for f in scn['frags']:
        d = {'form': 'pair' if f['hasR1'] and f['hasR2'] else ('r1none' if f['hasR1'] else 'r2only')}
        if f['hasR1']:
            d['r1'] = mate(f['r1'])
        if f['hasR2']:
            d['r2'] = mate(f['r2'])
        frags.append(d)
    return {'chrom': 'chr1', 'frags': frags}


def main():
    out, tier, seed = sys.argv[1], sys.argv[2], int(sys.argv[3])
    scn_path = sys.argv[4] if len(sys.argv) > 4 and not sys.argv[4].startswith('--') else None
    rng = random.Random(seed)
    ref = molgen.make_reference(random.Random(seed + 1))
    runner = Runner()
    tid = 0
    with open(out, 'w') as f:
        def emit(e):
            f.write(json.dumps(e, separators=(',', ':')) + '\n')

        def do_molecule(mol, max_all, n_random, doves=(False, True)):
            nonlocal tid
            tid += 1
            emit({'ev': 'mol', 'tid': tid, 'chrom': mol['chrom'], 'frags': mol['frags']})
            n = len(mol['frags'])
            ident = list(range(1, n + 1))
            if n <= max_all:
                perms = [list(p) for p in itertools.permutations(ident)][1:]
            else:
                perms = []
                for _ in range(n_random):
                    p = ident[:]
                    rng.shuffle(p)
                    perms.append(p)
                perms.append(ident[::-1])
            def go(order, dove, kind, incremental=False, merge=False, probs=True):
                for r in runner.run(ref, mol, order, dove, kind, incremental, probs=probs, merge=merge):
                    emit(dict(r, ev='cons', tid=tid))
            for dove in doves:
                go(ident, dove, 'base', incremental=n > 1)      # the same object is queried after every addition
                for j, p in enumerate(perms):
                    go(p, dove, 'perm', incremental=(j == 0), probs=(j % 2 == 0))     # second shape on every other permutation
                if n > 1:
                    go(ident[::-1], dove, 'perm', merge=True)     # grown by add_molecule instead of add_fragment
                dbl = ident + ident
                go(dbl, dove, 'dup', incremental=n > 1 and n <= 4)
                if n > 1:
                    rng.shuffle(dbl)
                    go(dbl, dove, 'dup')
            for first in ((tid % 2 == 0),):     # one object, both dove_safe settings; the order alternates between molecules
                for r in runner.run_mixed(ref, mol, ident, first):
                    emit(dict(r, ev='cons', tid=tid))

        if '--replay' in sys.argv:
            case = json.load(open(sys.argv[sys.argv.index('--replay') + 1]))
            mol, e = case['mol'], case['event']
            emit({'ev': 'mol', 'tid': 1, 'chrom': mol['chrom'], 'frags': mol['frags']})
            ident = list(range(1, len(mol['frags']) + 1))
            for r in runner.run(ref, mol, ident, e['dove'], 'base', len(ident) > 1, probs=True):   # as in the original run
                emit(dict(r, ev='cons', tid=1))
            kind = e.get('run_kind', e['kind'])
            if kind == 'mixed':
                for r in runner.run_mixed(ref, mol, e['run_order'], e['mixed_first']):
                    emit(dict(r, ev='cons', tid=1))
                return
            for r in runner.run(ref, mol, e.get('run_order', e['order']), e['dove'], 'perm' if kind == 'base' else kind,
                                e.get('incr', False), probs=True, merge=e.get('merge', False)):
                emit(dict(r, ev='cons', tid=1))
            return

        # (1) spec -> code: fragments enumerated by TLC (the model's whole fragment universe), alone and combined
        if scn_path:
            scns = json.load(open(scn_path))
            singles = [s for s in scns if len(s['frags']) == 1]
            for s in singles:
                tid += 1
                mol = scenario_to_mol(s)
                emit({'ev': 'mol', 'tid': tid, 'chrom': mol['chrom'], 'frags': mol['frags']})
                for r in runner.run(ref, mol, [1], bool(s['dove']), 'base', False, probs=(tid % 4 == 0)):
                    emit(dict(r, ev='cons', tid=tid))
                if tid % 8 == 0:
                    for r in runner.run_mixed(ref, mol, [1], bool(s['dove'])):
                        emit(dict(r, ev='cons', tid=tid))
            pool = {}
            for s in singles:
                fr = s['frags'][0]
                key = fr['r1']['rev'] if fr['hasR1'] else (not fr['r2']['rev'])
                pool.setdefault(key, []).append(fr)
            for _ in range(150 if tier == 'quick' else 1200):
                key = rng.choice(sorted(pool))
                k = rng.randint(2, 5)
                mol = scenario_to_mol({'frags': [rng.choice(pool[key]) for _ in range(k)]})
                do_molecule(mol, 3, 2)

        # (2) random realistic molecules
        n_mol = 400 if tier == 'quick' else 1800
        for k in range(n_mol):
            full = tier != 'quick' and k % 10 == 0    # every permutation up to 5 fragments, 50 random ones beyond
            do_molecule(gen_molecule(rng, ref, tier), 5 if full else 3, 50 if full else 4)
    sys.stderr.write('forced_adds=%d\n' % runner.forced)


if __name__ == '__main__':
    main()
