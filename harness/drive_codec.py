"""C04 driver: demultiplexer header -> BAM record name -> tagger, end to end on the real code.
usage: drive_codec.py <out.ndjson> <tier> <seed> <scenarios.json|->

For every generated accepted read pair:  strategy.demultiplex(records, library=..)  ->  str(TaggedRecord) (asFastq header)
->  pysam.AlignedSegment.query_name  ->  QueryNameFlagger().digest([r1, r2])  ->  tags read back.
Recorded per mate: the abstract input (header fields, library, UMI qualities), TaggedRecord.tags as written, whether asFastq
refused, whether pysam could store the name, the BAM tags and the new query name. Text is recorded as lists of character codes.
Also: the two quality-code functions on all 94 phred characters.
Only drives and records; TLC (Trace_Codec) judges."""
import json
import random
import sys

import pysam


def codes(s):
    return [ord(c) for c in str(s)]


HEADER = pysam.AlignmentHeader.from_dict({'HD': {'VN': '1.6'}, 'SQ': [{'SN': 'chr1', 'LN': 100000}]})
SAFE = 'abcdefghijklmnopqrstuvwxyzABCDEFGHIJKLMNOPQRSTUVWXYZ0123456789-_'


class Gen:
    def __init__(self, rng):
        import logging
        logging.disable(logging.CRITICAL)
        import os
        import singlecellmultiomics.modularDemultiplexer as md
        from singlecellmultiomics.barcodeFileParser.barcodeFileParser import BarcodeParser
        from singlecellmultiomics.modularDemultiplexer.demultiplexingStrategyLoader import DemultiplexingStrategyLoader
        from singlecellmultiomics.modularDemultiplexer.baseDemultiplexMethods import NonMultiplexable
        from singlecellmultiomics.fastqProcessing.fastqIterator import FastqRecord
        base = os.path.dirname(md.__file__)
        self.rng = rng
        self.NonMultiplexable = NonMultiplexable
        self.FastqRecord = FastqRecord
        self.bp = BarcodeParser(os.path.join(base, 'barcodes'), lazyLoad='*')
        self.ip = BarcodeParser(os.path.join(base, 'indices'), lazyLoad='*')
        self.index_alias = 'illumina_merged_ThruPlex48S_RP'
        import contextlib
        import io
        with contextlib.redirect_stdout(io.StringIO()):
            self.dmx = DemultiplexingStrategyLoader(barcodeParser=self.bp, indexParser=self.ip, indexFileAlias=self.index_alias)
            # the same strategies built without a sequencing-index parser: the only configuration that accepts headers
            # without an index (10-/7-field Illumina, empty index)
            self.dmx0 = DemultiplexingStrategyLoader(barcodeParser=self.bp, indexParser=None, indexFileAlias=None)
            # and with Hamming expansion 1 on both parsers: raw barcode / raw index differ from the corrected ones
            self.bp1 = BarcodeParser(os.path.join(base, 'barcodes'), hammingDistanceExpansion=1, lazyLoad='*')
            self.ip1 = BarcodeParser(os.path.join(base, 'indices'), hammingDistanceExpansion=1, lazyLoad='*')
            self.dmx1 = DemultiplexingStrategyLoader(barcodeParser=self.bp1, indexParser=self.ip1, indexFileAlias=self.index_alias)
        self.strategies = list(self.dmx.demultiplexingStrategies)
        self.strategies0 = {st.shortName: st for st in self.dmx0.demultiplexingStrategies}
        self.strategies1 = {st.shortName: st for st in self.dmx1.demultiplexingStrategies}
        self.zero = {}          # (parser id, alias) -> synthetic barcode registered with CELL INDEX 0
        from singlecellmultiomics.universalBamTagger.universalBamTagger import QueryNameFlagger
        self.flagger = QueryNameFlagger()       # one tagger object for the whole run, as in the real tagger
        idx = list(self.ip[self.index_alias].keys())
        self.single_idx = sorted(i for i in idx if '+' not in i)
        self.dual_idx = sorted(i for i in idx if '+' in i)

    # -- layouts -----------------------------------------------------------------------------------------------------
    def layouts(self, st):
        """Objects that describe where barcode / UMI sit (the strategy itself or the sub-demultiplexers it delegates to)."""
        out = [st]
        for a in ('chic_demux', 'damid_demux', 'transcriptome_demux'):
            if hasattr(st, a):
                out.append(getattr(st, a))
        return [x for x in out if getattr(x, 'barcodeFileAlias', None)]

    def whitelist(self, lay):
        try:
            wl = lay.barcodeFileParser[lay.barcodeFileAlias]
        except Exception:
            return None
        if not wl:
            return None
        key = (id(lay.barcodeFileParser), lay.barcodeFileAlias)
        if key not in self.zero:        # deterministic (also on --replay): a whitelist member with the falsy cell index 0
            n = len(next(iter(wl)))
            bc0 = next(c * n for c in 'GCA' if c * n not in wl)
            lay.barcodeFileParser.addBarcode(lay.barcodeFileAlias, bc0, 0)
            if lay.barcodeFileParser.hammingDistanceExpansion:
                lay.barcodeFileParser.expand(lay.barcodeFileParser.hammingDistanceExpansion, alias=lay.barcodeFileAlias)
            self.zero[key] = bc0
        return sorted(k for k in wl.keys() if k != self.zero[key])

    def place(self, lay, seqs, barcode):
        """Write a whitelist barcode into the positions the layout reads it from; returns the UMI slices [(mate, slice)]."""
        if hasattr(lay, 'barcode_slices'):
            pos = 0
            for mate, sl in enumerate(lay.barcode_slices):
                for s in sl:
                    n = s.stop - s.start
                    seqs[mate][s.start:s.stop] = barcode[pos:pos + n]
                    pos += n
            return [(m, s) for m, sl in enumerate(lay.umi_slices) for s in sl]
        b0 = lay.barcodeStart
        seqs[lay.barcodeRead][b0:b0 + lay.barcodeLength] = barcode
        if lay.umiLength:
            return [(lay.umiRead, slice(lay.umiStart, lay.umiStart + lay.umiLength))]
        return []

    def header(self, hv, f, mate):
        coords = ':'.join([f['is'], f['rn'], f['fc'], f['la'], f['ti'], f['cx'], f['cy']])
        if hv == 'illumina11':
            return '@%s %d:%s:%s:%s' % (coords, mate + 1, f['fi'], f['cn'], f['idx'])
        if hv == 'illumina11e':     # index field present but empty
            return '@%s %d:%s:%s:' % (coords, mate + 1, f['fi'], f['cn'])
        if hv == 'illumina10':      # no index field
            return '@%s %d:%s:%s' % (coords, mate + 1, f['fi'], f['cn'])
        if hv == 'illumina10cc':    # no index, trailing '::'
            return '@%s %d:%s:%s::' % (coords, mate + 1, f['fi'], f['cn'])
        if hv == 'illumina7':       # bare coordinates (SRA style); filter flag and control number become the integer 0
            return '@' + coords
        if hv == '3dec':
            return '@Cluster_s_%s_%s_%d' % (f['la'], f['ti'], mate + 1)
        if hv == 'scmo':      # an already demultiplexed header is accepted as input as well
            return '@Is:%s;RN:%s;Fc:%s;La:%s;Ti:%s;CX:%s;CY:%s;Fi:%s;CN:%s;aa:%s;aA:%s;aI:%s' % (
                f['is'], f['rn'], f['fc'], f['la'], f['ti'], f['cx'], f['cy'], f['fi'], f['cn'], f['idx'], f['idx'], '7')
        raise ValueError(hv)

    def fields(self, idx_kind):
        r = self.rng
        tok = lambda n: ''.join(r.choice(SAFE) for _ in range(n))
        idx = {'single': r.choice(self.single_idx), 'dual': r.choice(self.dual_idx) if self.dual_idx else r.choice(self.single_idx),
               'int': str(r.randint(1, 96)), 'none': ''}[idx_kind]
        return {'is': r.choice(['NS500414', 'M00123', 'HWI-ST1234', 'A00_12-x']) if r.random() < 0.7 else tok(r.randint(1, 10)),
                'rn': str(r.choice([0, r.randint(1, 999)])), 'fc': r.choice(['H7YVNBGXC', '000000000-ABCDE', tok(9)]),
                'la': str(r.randint(1, 8)), 'ti': str(r.randint(1101, 2678)), 'cx': str(r.choice([0, r.randint(1, 30000)])),
                'cy': str(r.choice([0, 1, r.randint(1, 30000)])), 'fi': r.choice('NY'), 'cn': str(r.choice([0, 0, 2, 18])), 'idx': idx}

    def build(self, st, quals, hv, f, single_end=False, L=76, cell='any', content=None, prefer=None):
        """Try to build a pair this strategy accepts. quals: function (mate, pos) -> phred character."""
        r = self.rng
        lays = self.layouts(st) or [None]
        if prefer is not None and hasattr(st, prefer):       # e.g. the transcriptome layout of the DamID+T strategies
            lays = [getattr(st, prefer)] + [x for x in lays if x is not getattr(st, prefer)]
        for lay in lays:
            wl = self.whitelist(lay) if lay is not None else None
            if lay is not None and not wl:
                continue
            seqs = [[r.choice('ACG') for _ in range(L)] for _ in range(2)]      # no T: no poly-T / motif accidents
            umi_slices = []
            if lay is not None:
                bc = r.choice(wl)
                if cell == 'zero':          # the whitelist member with cell index 0
                    bc = self.zero[(id(lay.barcodeFileParser), lay.barcodeFileAlias)]
                elif cell == 'mismatch':    # one sequencing error in the barcode (corrected when the parser expands)
                    p = r.randrange(len(bc))
                    bc = bc[:p] + r.choice([c for c in 'ACGT' if c != bc[p]]) + bc[p + 1:]
                umi_slices = self.place(lay, seqs, list(bc))
            if type(st).__name__ == 'SCCHIC_384w_c8_u3_pdt':
                seqs[0][40:49] = list('AGACTCTTT')
            if content and type(st).__name__ == 'SCCHIC_384w_c8_u3_cs2' and lay is not None and cell == 'any':
                # content dependent TCHIC branches: bleed-through of the same well's CEL-Seq2 barcode + poly-T (dt=VASA, rx = the
                # 6 bases in front of it when there are any), T7 promoter remnant (RR=T7_found)
                from singlecellmultiomics.utils import reverse_complement
                bi = lay.barcodeFileParser[lay.barcodeFileAlias][bc]
                motif = st.id_to_cs2_barcode.get(bi)
                umi6 = ''.join(r.choice('ACG') for _ in range(6))
                if motif and content == 'vasa_r1':
                    seqs[0][20:20 + 6 + len(motif)] = list(umi6 + motif)
                elif motif and content == 'vasa_r1_noumi':
                    seqs[0][12:12 + len(motif)] = list(motif)        # the insert starts at 12: nothing in front of the barcode
                elif motif and content == 'vasa_r2':
                    seqs[1][10:10 + 6 + len(motif)] = list(reverse_complement(umi6 + motif))
                elif content == 't7':
                    seqs[0][15:26] = list('AGTCCGACGAT')
            n = 1 if single_end else 2
            recs = [self.FastqRecord(self.header(hv, f, m), ''.join(seqs[m]), '+', ''.join(quals(m, p) for p in range(L)))
                    for m in range(n)]
            umiq = ''.join(recs[m].qual[s] for m, s in umi_slices if m < n)
            umi = ''.join(recs[m].sequence[s] for m, s in umi_slices if m < n)
            plain = lay is st          # the UMI positions are known for sure only when the strategy is its own layout
            return recs, (umi if plain else None), (umiq if plain else None)
        return None, None, None


def roundtrip(g, st, recs, lib, ev):
    """Run the real pipeline on one (accepted?) pair and emit one event per mate."""
    base = dict(ev)
    base['qmax'] = max(ord(c) for r in recs for c in r.qual)
    base['reads'] = [[r.header, r.sequence, r.qual] for r in recs]      # for ./check C04 --replay
    illu = type(st).__name__ == 'IlluminaBaseDemultiplexer'
    texts = None
    try:
        if illu:
            # the bulk strategy returns finished FASTQ text (asFastq(sequence, plus, qualities) inside demultiplex) and refuses a
            # too long header there; the tags it wrote are observed through its own inherited=True form (same constructor call)
            tagged = st.demultiplex(recs, library=lib, inherited=True)
            try:
                texts = st.demultiplex(recs, library=lib)
            except ValueError:
                texts = [None] * len(tagged)
        else:
            tagged = st.demultiplex(recs, library=lib)
    except g.NonMultiplexable:
        base['raised'] = 'NonMultiplexable'
        return [base]
    except Exception as ex:
        base['raised'] = type(ex).__name__
        return [base]
    if not isinstance(tagged, (list, tuple)) or not tagged or isinstance(tagged[0], str):
        tagged = None
    from singlecellmultiomics.universalBamTagger.universalBamTagger import QueryNameFlagger
    out, segs = [], []
    for mate, tr in enumerate(tagged or []):
        e = dict(base)
        e['mate'] = mate
        e['dt'] = [[k, codes(v)] for k, v in tr.tags.items()]
        e['dt_types'] = sorted(set(type(v).__name__ for v in tr.tags.values()))
        try:
            if texts is not None:
                if texts[mate] is None:
                    raise ValueError('refused inside demultiplex')
                fq = texts[mate]
            else:
                fq = (str(tr), tr.asFastq(), repr(tr))[base['tid'] % 3]      # the three ways the writer serialises a record
            e['header'] = codes(fq.split('\n')[0][1:])
        except ValueError:
            e['refused'] = True
        except Exception as ex:
            e['ser_raised'] = type(ex).__name__       # a raise while serialising an accepted pair
        seg = None
        if e['header']:
            seg = pysam.AlignedSegment(HEADER)
            try:
                seg.query_name = ''.join(map(chr, e['header'])).split()[0]
                seg.query_sequence = 'ACGT'
                seg.flag = (0x40 if mate == 0 else 0x80) | 1
                seg.reference_id = 0
                seg.reference_start = 100
                seg.cigarstring = '4M'
                if base['tid'] % 2:         # tags an aligner leaves on the record
                    seg.set_tag('NM', 0)
                    seg.set_tag('AS', 4)
                    seg.set_tag('MD', '4')
                e['stored'] = True
            except ValueError:
                seg = None
        out.append(e)
        segs.append(seg)
    if out and all(s is not None for s in segs):
        # the shape in which the fragment reaches the tagger: complete pair, one call per mate with the other slot None
        # ([R1, None] then [None, R2]), R2 listed first, the same fragment digested twice (already tagged reads are left
        # alone), single-end [R1] / [R1, None]. Every present read must end up decoded.
        shapes = ['pair', 'split', 'r2_first', 'twice', 'split'] if len(segs) == 2 else ['single', 'single_none', 'twice']
        shape = shapes[base['tid'] % len(shapes)]
        for e in out:
            e['shape'] = shape
        try:
            fl = g.flagger
            if shape == 'split':
                fl.digest([segs[0], None])
                fl.digest([None, segs[1]])
            elif shape == 'r2_first':
                fl.digest([segs[1], segs[0]])
            elif shape == 'single_none':
                fl.digest([segs[0], None])
            elif shape == 'twice':
                fl.digest(list(segs))
                fl.digest(list(segs))
            else:
                fl.digest(list(segs))
            for e, s in zip(out, segs):
                e['bt'] = [[k, codes(v)] for k, v in s.get_tags()]
                e['qname'] = codes(s.query_name)
                e['digested'] = True
        except Exception as ex:
            for e in out:
                e['digest_raised'] = type(ex).__name__
    return out or [base]


def replay(out, ev):
    """Push the recorded input of one event through the real code again."""
    g = Gen(random.Random(0))
    from singlecellmultiomics.modularDemultiplexer.baseDemultiplexMethods import (phredToFastqHeaderSafeQualities,
                                                                                 fastqHeaderSafeQualitiesToPhred)
    with open(out, 'w') as f:
        if ev['ev'] == 'qcode':
            e = {'ev': 'qcode', 'tid': ev['tid'], 'c': ev['c'], 'enc': [], 'dec': [], 'raised': ''}
            try:
                enc = phredToFastqHeaderSafeQualities(chr(ev['c']), method=3)
                e['enc'] = codes(enc)
                e['dec'] = codes(fastqHeaderSafeQualitiesToPhred(enc, method=3))
            except Exception as ex:
                e['raised'] = type(ex).__name__
            f.write(json.dumps(e) + '\n')
            return
        st = (g.strategies1[ev['strategy']] if ev.get('loader') == 'k1' else g.strategies0[ev['strategy']] if not ev.get('ixp', True)
              else [s for s in g.strategies if s.shortName == ev['strategy']][0])
        for lay in g.layouts(st):
            g.whitelist(lay)        # registers the cell-index-0 member exactly as the recording run did
        recs = [g.FastqRecord(h, s, '+', q) for h, s, q in ev['reads']]
        base = dict(ev)
        base.update(raised='', ser_raised='', refused=False, stored=False, digested=False, digest_raised='', dt=[], dt_types=[], header=[], bt=[],
                    qname=[], mate=0)
        for e in roundtrip(g, st, recs, ''.join(map(chr, ev['ly'])), base):
            if e['mate'] == ev['mate'] or e['raised']:
                f.write(json.dumps(e) + '\n')


def main():
    out, tier, seed = sys.argv[1], sys.argv[2], int(sys.argv[3])
    scn_file = sys.argv[4] if len(sys.argv) > 4 else '-'
    if tier == 'replay':
        return replay(out, json.load(open(scn_file)))
    rng = random.Random(seed)
    g = Gen(rng)
    from singlecellmultiomics.modularDemultiplexer.baseDemultiplexMethods import (phredToFastqHeaderSafeQualities,
                                                                                 fastqHeaderSafeQualitiesToPhred)
    tid = [0]
    f = open(out, 'w')

    def emit(e):
        f.write(json.dumps(e, separators=(',', ':')) + '\n')

    def blank(st, hv, fld, lib, mode, umi, umiq, ixp=True):
        tid[0] += 1
        fld = dict(fld)
        if hv in ('illumina7', '3dec'):      # the header carries neither filter flag nor control number
            fld['fi'] = fld['cn'] = ''
        return {'ev': 'pair', 'tid': tid[0], 'strategy': st.shortName, 'hv': hv, 'mode': mode, 'mate': 0, 'ixp': ixp,
                'in': {k: codes(v) for k, v in fld.items()}, 'ly': codes(lib),
                'umi_in': codes(umi) if umi is not None else [], 'umiq_in': codes(umiq) if umiq is not None else [],
                'umi_known': umi is not None, 'raised': '', 'ser_raised': '', 'refused': False, 'stored': False, 'digested': False,
                'digest_raised': '', 'dt': [], 'dt_types': [], 'header': [], 'bt': [], 'qname': [], 'shape': ''}

    # (1) the two quality-code functions on all 94 phred characters
    for c in range(33, 127):
        tid[0] += 1
        e = {'ev': 'qcode', 'tid': tid[0], 'c': c, 'enc': [], 'dec': [], 'raised': ''}
        try:
            enc = phredToFastqHeaderSafeQualities(chr(c), method=3)
            e['enc'] = codes(enc)
            e['dec'] = codes(fastqHeaderSafeQualitiesToPhred(enc, method=3))
        except Exception as ex:
            e['raised'] = type(ex).__name__
        emit(e)

    def lib_for_len(st, recs, target):
        """Library name that makes the written header exactly `target` characters long (None if impossible)."""
        try:    # the header length depends on lengths only: probe with qualities every version of the code can encode
            kw = {'inherited': True} if type(st).__name__ == 'IlluminaBaseDemultiplexer' else {}
            probe = st.demultiplex([g.FastqRecord(r.header, r.sequence, r.plus, 'E' * len(r.qual)) for r in recs], library='L', **kw)
            h = ';'.join('%s:%s' % (k, v) for k, v in probe[0].tags.items() if k != 'RP')
        except Exception:
            return None
        n = target - (len(h) - 1)      # 'L' is one character
        if n < 1:
            return None
        return ''.join(rng.choice(SAFE) for _ in range(n))

    single_end = lambda st: type(st).__name__.endswith('SINGLE_END')
    reachable, unreachable = [], []
    uniform = lambda c: (lambda m, p: c)

    # (2) every strategy x header variant x index kind, uniform qualities over all 94 phred characters
    n_rep = 1 if tier == 'quick' else 30
    phreds = [chr(c) for c in range(33, 127)]
    for st in g.strategies:
        ok = False
        cases = [('illumina11', 'single'), ('illumina11', 'dual'), ('illumina11', 'int'), ('scmo', 'single')]
        for rep in range(n_rep):
            for hv, ik in cases:
                fld = g.fields(ik)
                c = phreds[(tid[0] * 7 + rep) % 52] if rep % 2 == 0 else rng.choice(phreds)      # <= 'Z' level and anything
                recs, umi, umiq = g.build(st, uniform(c), hv, fld, single_end(st))
                if recs is None:
                    break
                lib = ''.join(rng.choice(SAFE) for _ in range(rng.randint(1, 40)))
                evs = roundtrip(g, st, recs, lib, blank(st, hv, fld, lib, 'uniform', umi, umiq))
                for e in evs:
                    e['uq'] = ord(c)
                    emit(e)
                ok = ok or evs[0]['raised'] == ''
        (reachable if ok else unreachable).append(st.shortName)

    # (2b) no sequencing-index parser: every header variant the parser then accepts (index, empty index, 10 fields with and
    #      without '::', bare 7 fields, 3-DEC); and an empty library name with the index parser
    sub = [st for i, st in enumerate(g.strategies) if st.shortName in reachable and (tier != 'quick' or i % 3 == 0)]
    for st in sub:
        st0 = g.strategies0[st.shortName]
        for rep in range(1 if tier == 'quick' else 4):
            for hv, ik in [('illumina11', 'single'), ('illumina11e', 'none'), ('illumina10', 'none'), ('illumina10cc', 'none'),
                           ('illumina7', 'none'), ('3dec', 'none')]:
                fld = g.fields(ik)
                c = rng.choice(phreds)
                recs, umi, umiq = g.build(st0, uniform(c), hv, fld, single_end(st0))
                if recs is None:
                    continue
                lib = ''.join(rng.choice(SAFE) for _ in range(rng.randint(1, 30)))
                for e in roundtrip(g, st0, recs, lib, blank(st0, hv, fld, lib, 'noindexparser', umi, umiq, ixp=False)):
                    e['uq'] = ord(c)
                    emit(e)
        fld = g.fields('single')
        recs, umi, umiq = g.build(st, uniform('F'), 'illumina11', fld, single_end(st))
        if recs is not None:
            for e in roundtrip(g, st, recs, '', blank(st, 'illumina11', fld, '', 'emptylibrary', umi, umiq)):
                e['uq'] = ord('F')
                emit(e)

    # (2c) falsy-but-valid values at both ends of the codec: the whitelist member whose CELL INDEX is 0 (sample = library_0)
    for i, st in enumerate(g.strategies):
        if st.shortName not in reachable or not g.layouts(st) or type(st).__name__ == 'SCCHIC_384w_c8_u3_cs2' or (tier == 'quick' and i % 2):
            continue        # (TCHIC maps the cell index through the celseq2 list, which has no index 0)
        fld = g.fields('single')
        recs, umi, umiq = g.build(st, uniform('!'), 'illumina11', fld, single_end(st), cell='zero')
        if recs is None:
            continue
        lib = ''.join(rng.choice(SAFE) for _ in range(rng.randint(1, 12)))
        for e in roundtrip(g, st, recs, lib, blank(st, 'illumina11', fld, lib, 'cellindex0', umi, umiq)):
            e['uq'] = ord('!')
            emit(e)

    # (2d) Hamming-corrected barcode and sequencing index (both parsers with expansion 1): raw and corrected values differ
    #      (bc != BC, aa != aA, ah = 1) and both have to come back
    for i, st in enumerate(g.strategies):
        if st.shortName not in reachable or not g.layouts(st) or (tier == 'quick' and i % 2 == 0):
            continue
        st1 = g.strategies1[st.shortName]
        for rep in range(1 if tier == 'quick' else 4):
            fld = g.fields('single')
            p = rng.randrange(len(fld['idx']))
            fld['idx'] = fld['idx'][:p] + rng.choice([c for c in 'ACGT' if c != fld['idx'][p]]) + fld['idx'][p + 1:]
            recs, umi, umiq = g.build(st1, uniform('F'), 'illumina11', fld, single_end(st1), cell='mismatch')
            if recs is None:
                continue
            lib = ''.join(rng.choice(SAFE) for _ in range(rng.randint(1, 12)))
            ev0 = blank(st1, 'illumina11', fld, lib, 'corrected', umi, umiq)
            ev0['loader'] = 'k1'
            for e in roundtrip(g, st1, recs, lib, ev0):
                e['uq'] = ord('F')
                emit(e)

    # (2f) content dependent branches that write the rarely used tags (rx, tu, dt, RR): TCHIC bleed-through / T7, the
    #      transcriptome side of the DamID+T strategies (CHICTV's tu is written by every CHICTV pair above)
    byname = {type(x).__name__: x for x in g.strategies if x.shortName in reachable}
    special = [(byname.get('SCCHIC_384w_c8_u3_cs2'), c, None) for c in ('vasa_r1', 'vasa_r1_noumi', 'vasa_r2', 't7')] + \
              [(byname.get(n), 'rna', 'transcriptome_demux') for n in ('DamID2_c8_u3_cs2', 'DamID2andT_SCA', 'DamID2andT_SCA6')]
    for st, content, prefer in special:
        if st is None:
            continue
        for rep in range(1 if tier == 'quick' else 5):
            fld = g.fields(rng.choice(['single', 'dual']))
            c = rng.choice(phreds)
            recs, umi, umiq = g.build(st, uniform(c), 'illumina11', fld, single_end(st), content=content, prefer=prefer)
            if recs is None:
                continue
            lib = ''.join(rng.choice(SAFE) for _ in range(rng.randint(1, 20)))
            for e in roundtrip(g, st, recs, lib, blank(st, 'illumina11', fld, lib, 'content_' + content, None, None)):
                e['uq'] = ord(c)
                emit(e)

    # (2g) header-safe values that look like reserved words of the format: the marker of the obsolete read-name format ('UMI'),
    #      tag keys, leading / trailing '-' and '_' - as library, as instrument and as flow-cell name
    pool = ['UMI', 'UMIlib', 'libUMI', 'a_UMI_b', 'xUMI-1', 'SM', 'BC', 'MI', 'LY', 'Is', 'bi', 'RX-RQ', 'SM_BC_UMI',
            '-lead', 'trail-', '_lead', 'trail_', '-', '_', '0']
    sts = [x for x in g.strategies if x.shortName in reachable]
    for j, val in enumerate(pool):
        for slot in ('ly', 'is', 'fc'):
            if tier == 'quick' and (j + len(slot) + ord(slot[0])) % 2:
                continue
            st = sts[(3 * j + ord(slot[0])) % len(sts)]
            fld = g.fields('single')
            lib = ''.join(rng.choice(SAFE) for _ in range(rng.randint(1, 12)))
            if slot == 'ly':
                lib = val
            else:
                fld[slot] = val
            recs, umi, umiq = g.build(st, uniform('F'), 'illumina11', fld, single_end(st))
            if recs is None:
                continue
            for e in roundtrip(g, st, recs, lib, blank(st, 'illumina11', fld, lib, 'reservedword_' + slot, umi, umiq)):
                e['uq'] = ord('F')
                emit(e)

    # (2e) a sequencing index that is not in the index list (index parser configured): the pair is NOT accepted
    #      (NonMultiplexable through TaggedRecord.__init__ and the strategies' re-raise arms) - recorded, outside the statement
    for st in [x for x in g.strategies if x.shortName in reachable][::5]:
        fld = g.fields('single')
        fld['idx'] = 'NNNNNNNNNNNN'
        recs, umi, umiq = g.build(st, uniform('F'), 'illumina11', fld, single_end(st))
        if recs is not None:
            for e in roundtrip(g, st, recs, 'lib', blank(st, 'illumina11', fld, 'lib', 'unknownindex', umi, umiq)):
                e['uq'] = ord('F')
                emit(e)

    # (3) all 94 phred characters inside the UMI (per-position qualities), on the plain-layout strategies
    plain = [st for st in g.strategies if st.shortName in reachable and g.layouts(st) and g.layouts(st)[0] is st]
    for c in [x for x in range(33, 127) for _ in range(1 if tier == 'quick' else 3)]:
        for st in (plain if tier != 'quick' else plain[(c % 3)::3]):
            fld = g.fields('single')
            q = lambda m, p, c=c: chr(c) if (p + m) % 2 == 0 else chr(33 + (c * 7 + p) % 52)
            recs, umi, umiq = g.build(st, q, 'illumina11', fld, single_end(st))
            if recs is None:
                continue
            lib = 'lib' + str(c)
            for e in roundtrip(g, st, recs, lib, blank(st, 'illumina11', fld, lib, 'varied', umi, umiq)):
                e['uq'] = 0
                emit(e)

    # (4) TLC scenarios (Codec.tla initial states): library pattern, UMI qualities, index kind, header length relative
    #     to the limit -> realised with the real limit 254: lengths 250..258
    if scn_file != '-':
        scn = json.load(open(scn_file))
        sts = [st for st in plain if not single_end(st)]
        for i, s in enumerate(scn):
            st = sts[i % len(sts)]
            noidx = len(s['idx']) == 0          # model: empty index text, no corrected index -> realised without index parser
            if noidx:
                st = g.strategies0[st.shortName]
            fld = g.fields('none' if noidx else ('dual' if 43 in s['idx'] else 'single'))
            uq = [chr(x) for x in s['uq']]
            q = lambda m, p: uq[p % len(uq)]
            hv = 'illumina11e' if noidx else 'illumina11'
            recs, umi, umiq = g.build(st, q, hv, fld, False)
            if recs is None:
                continue
            pat = ''.join(chr(x) for x in s['ly'])
            lib = lib_for_len(st, recs, 254 + s['over'])
            if lib is None:
                continue
            lib = (pat + lib)[:len(lib)]
            for e in roundtrip(g, st, recs, lib, blank(st, hv, fld, lib, 'scenario', umi, umiq, ixp=not noidx)):
                e['uq'] = 0
                emit(e)

    # (5) explicit boundary lengths 252..257 for every reachable strategy
    for st in g.strategies:
        if st.shortName not in reachable:
            continue
        for target in (252, 253, 254, 255, 256, 257):
            fld = g.fields('single')
            recs, umi, umiq = g.build(st, uniform('E'), 'illumina11', fld, single_end(st))
            if recs is None:
                continue
            lib = lib_for_len(st, recs, target)
            if lib is None:
                continue
            for e in roundtrip(g, st, recs, lib, blank(st, 'illumina11', fld, lib, 'boundary', umi, umiq)):
                e['uq'] = ord('E')
                emit(e)

    tid[0] += 1
    emit({'ev': 'summary', 'tid': tid[0], 'reachable': reachable, 'unreachable': unreachable})
    f.close()


if __name__ == '__main__':
    main()
