"""Shared machinery of the /verif checks.

Everything that decides a property is a TLA+ formula evaluated by TLC; this module only
  * runs SANY / TLC (exhaustive model checking, simulation, trace validation) and parses their output,
  * runs drivers (real code of the repository under test) in child processes,
  * turns TLC's verdicts into VIOLATION / KNOWN-FINDING lines, replay files and evidence files.

Repository under test: $VERIF_REPO (default /repo).  It is put first on PYTHONPATH of every driver so
`import singlecellmultiomics` resolves to that working tree (the editable install in /venv is only the
fallback), which is how the checks are run against scratch worktrees carrying seeded changes.
"""
import atexit
import json
import os
import re
import shutil
import subprocess
import sys
import tempfile
import time

VERIF = os.path.dirname(os.path.dirname(os.path.abspath(__file__)))
REPO = os.environ.get('VERIF_REPO', '/repo')
PY = os.environ.get('VERIF_PY', '/venv/bin/python')
SPEC = os.path.join(VERIF, 'spec')
HARNESS = os.path.join(VERIF, 'harness')
TLA_CP = '/opt/veriftools/tla/tla2tools.jar:/opt/veriftools/tla/CommunityModules-deps.jar'
GUARD = 'SCMO_VERIF'
# evidence / replay directories can be redirected (mutation runs against scratch worktrees must not overwrite real evidence)
EVIDENCE_DIR = os.environ.get('VERIF_EVIDENCE_DIR', os.path.join(VERIF, 'evidence'))
REPLAY_DIR = os.environ.get('VERIF_REPLAY_DIR', os.path.join(VERIF, 'replays'))

EXIT_OK, EXIT_VIOLATION, EXIT_MACHINERY = 0, 1, 2


class MachineryError(Exception):
    """The verification machinery itself failed (exit 2); never a property verdict."""


# ------------------------------------------------------------------------------------------------
# scratch space

_scratch_root = None


def scratch(sub=None):
    """Fresh per-run scratch directory (removed at exit). Nothing registered depends on /tmp content."""
    global _scratch_root
    if _scratch_root is None:
        base = os.environ.get('VERIF_SCRATCH_BASE', tempfile.gettempdir())
        _scratch_root = tempfile.mkdtemp(prefix='verif_', dir=base)
        if not os.environ.get('VERIF_KEEP_SCRATCH'):
            atexit.register(shutil.rmtree, _scratch_root, True)
    if sub is None:
        return _scratch_root
    p = os.path.join(_scratch_root, sub)
    os.makedirs(p, exist_ok=True)
    return p


def seed():
    return int(os.environ.get('VERIF_SEED', '0') or 0)


def tier_from_env(default='quick'):
    return os.environ.get('VERIF_TIER', default)


# ------------------------------------------------------------------------------------------------
# SANY / TLC

def _java(main, args, cwd, env=None, timeout=None, jvm=()):
    jvm = list(jvm)
    e = dict(os.environ)
    if env:
        e.update(env)
    # every JVM gets an explicit heap bound (the JVM default is 1/4 of the RAM *per process*; several checks side by side
    # were hit by the kernel's OOM killer). Callers that need more pass heap=...
    if not any(o.startswith('-Xmx') for o in jvm) and '-Xmx' not in e.get('JAVA_TOOL_OPTIONS', ''):
        jvm.append('-Xmx8g')
    cmd = ['java', '-XX:+UseParallelGC', '-Xss64m', *jvm, '-cp', TLA_CP, main, *args]   # deep TLA+ recursion must never depend on JIT/load
    t0 = time.time()
    for attempt in (1, 2):
        try:
            p = subprocess.run(cmd, cwd=cwd, env=e, stdout=subprocess.PIPE, stderr=subprocess.STDOUT,
                               timeout=timeout, text=True, errors='replace')
            out, rc, to = p.stdout, p.returncode, False
        except subprocess.TimeoutExpired as ex:
            out = ex.stdout if isinstance(ex.stdout, str) else (ex.stdout or b'').decode(errors='replace')
            rc, to = -9, True
        # a JVM killed from outside (SIGKILL, e.g. the OOM killer under memory pressure from other processes) says nothing
        # about model or code: run it once more
        if not to and rc in (-9, 137) and attempt == 1:
            time.sleep(5)
            if '-metadir' in args:          # start the second run from an empty metadir
                md = args[list(args).index('-metadir') + 1]
                shutil.rmtree(md, True)
                os.makedirs(md, exist_ok=True)
            continue
        break
    return {'rc': rc, 'out': out, 'timeout': to, 'wall_s': time.time() - t0, 'cmd': ' '.join(cmd)}


def sany(module, cwd=SPEC):
    r = _java('tla2sany.SANY', [module if module.endswith('.tla') else module + '.tla'], cwd, timeout=120)
    if r['rc'] != 0 or 'Semantic errors' in r['out'] or '*** Errors' in r['out'] or 'Parsing or semantic analysis failed' in r['out']:
        raise MachineryError('SANY failed for %s:\n%s' % (module, r['out'][-3000:]))
    return r


_RE_STATES = re.compile(r'(\d+) states generated, (\d+) distinct states found, (\d+) states left on queue')
_RE_INV = re.compile(r'Invariant (\S+) is violated')
_RE_ACTPROP = re.compile(r'Action property (\S+) is violated')
_RE_DEPTH = re.compile(r'The depth of the complete state graph search is (\d+)')
_RE_COV = re.compile(r'^<(\w+) line (\d+), col (\d+) to line (\d+), col (\d+) of module (\w+)>: (\d+):(\d+)', re.M)


def write_cfg(path, *, init='Init', next_='Next', spec=None, constants=None, invariants=(), properties=(),
              constraints=(), action_constraints=(), postcondition=None, deadlock=False, view=None, symmetry=None):
    lines = []
    if spec:
        lines.append('SPECIFICATION %s' % spec)
    else:
        lines += ['INIT %s' % init, 'NEXT %s' % next_]
    if constants:
        lines.append('CONSTANTS')
        for k, v in constants.items():
            lines.append('  %s = %s' % (k, tla_value(v)) if not (isinstance(v, str) and v.startswith('<-')) else '  %s %s' % (k, v))
    for i in invariants:
        lines.append('INVARIANT %s' % i)
    for p in properties:
        lines.append('PROPERTY %s' % p)
    for c in constraints:
        lines.append('CONSTRAINT %s' % c)
    for c in action_constraints:
        lines.append('ACTION_CONSTRAINT %s' % c)
    if postcondition:
        lines.append('POSTCONDITION %s' % postcondition)
    if view:
        lines.append('VIEW %s' % view)
    if symmetry:
        lines.append('SYMMETRY %s' % symmetry)
    lines.append('CHECK_DEADLOCK %s' % ('TRUE' if deadlock else 'FALSE'))
    with open(path, 'w') as f:
        f.write('\n'.join(lines) + '\n')
    return path


class Raw(str):
    """A TLA+ expression passed through literally by tla_value (e.g. Raw('{1,2}'), Raw('TRUE'))."""


def tla_value(v):
    """Python value -> TLA+ literal usable in a .cfg CONSTANTS section."""
    if isinstance(v, Raw):
        return str(v)
    if isinstance(v, bool):
        return 'TRUE' if v else 'FALSE'
    if isinstance(v, int):
        return str(v)
    if isinstance(v, str):
        return '"%s"' % v
    if isinstance(v, (set, frozenset)):
        return '{' + ', '.join(tla_value(x) for x in sorted(v, key=repr)) + '}'
    if isinstance(v, (list, tuple)):
        return '<<' + ', '.join(tla_value(x) for x in v) + '>>'
    if isinstance(v, dict):
        return '[' + ', '.join('%s |-> %s' % (k, tla_value(x)) for k, x in v.items()) + ']'
    raise TypeError(v)


def tlc(module, cfg, *, cwd=SPEC, workers=None, timeout=600, coverage=False, simulate=None, depth=None,
        env=None, extra=(), seed_=None, dfs=False, heap=None):
    """Run TLC. `cfg` is a path (absolute or relative to cwd). Returns a dict with parsed statistics."""
    meta = tempfile.mkdtemp(prefix='tlcmeta_', dir=scratch())
    args = ['-metadir', meta, '-noGenerateSpecTE', '-config', cfg]
    args += ['-workers', str(workers if workers else (os.cpu_count() or 4))]
    if coverage:
        args += ['-coverage', '1']
    if simulate:
        args += ['-simulate', simulate]
    if depth:
        args += ['-depth', str(depth)]
    if seed_ is not None:
        args += ['-seed', str(seed_)]
    args += list(extra)
    args.append(module if module.endswith('.tla') else module + '.tla')
    jvm = []
    if dfs:
        jvm.append('-Dtlc2.tool.queue.IStateQueue=StateDeque')
    if heap:
        jvm.append('-Xmx%s' % heap)
    r = _java('tlc2.TLC', args, cwd, env=env, timeout=timeout, jvm=jvm)
    shutil.rmtree(meta, True)
    out = r['out']
    m = None
    for m in _RE_STATES.finditer(out):
        pass
    r['generated'] = int(m.group(1)) if m else 0
    r['distinct'] = int(m.group(2)) if m else 0
    r['queue'] = int(m.group(3)) if m else 0
    d = _RE_DEPTH.search(out)
    r['depth'] = int(d.group(1)) if d else None
    r['violated'] = _RE_INV.findall(out) + _RE_ACTPROP.findall(out)
    if 'Temporal properties were violated' in out:
        r['violated'].append('<temporal>')
    if 'Deadlock reached' in out:
        r['violated'].append('<deadlock>')
    r['completed'] = 'Model checking completed' in out or (simulate is not None and not r['timeout'])
    r['no_error'] = 'No error has been found' in out
    r['postcondition_failed'] = 'The postcondition' in out and 'violated' in out.split('The postcondition', 1)[1][:200] if 'The postcondition' in out else False
    # an "Error:" that is neither a property violation nor a postcondition is a machinery problem
    r['tlc_error'] = None
    if not r['no_error'] and not r['violated'] and not r['postcondition_failed'] and not (simulate and not re.search(r'^Error:', out, re.M)):
        em = re.search(r'Error:.*', out, re.S)
        r['tlc_error'] = (em.group(0) if em else out)[-4000:]
    if coverage:
        cov = {}
        for mm in _RE_COV.finditer(out):
            name, mod = mm.group(1), mm.group(6)
            cov.setdefault(name, 0)
            cov[name] += int(mm.group(8))   # distinct states found through this action (second number)
        r['coverage'] = cov
    return r


def mc(module, cfgname, *, expect='pass', expect_inv=None, workers=None, timeout=900, coverage=True,
       actions_required=None, cwd=SPEC, env=None, heap=None):
    """Exhaustive model checking run with an expectation.

    expect='pass'  : the run must complete with no error; with coverage, every action in
                     `actions_required` (default: all actions reported) must have produced states.
    expect='fail'  : negative control - the run MUST violate an invariant (optionally one named in expect_inv).
    Anything else raises MachineryError (exit 2): a model problem is never reported as a property verdict.
    Returns the tlc() dict (+ 'label').
    """
    r = tlc(module, cfgname, workers=workers, timeout=timeout, coverage=coverage and expect == 'pass', cwd=cwd,
            env=env, heap=heap)
    r['label'] = '%s/%s' % (module, os.path.basename(cfgname))
    if r['timeout']:
        raise MachineryError('TLC timeout on %s\n%s' % (r['label'], r['out'][-2000:]))
    if expect == 'pass':
        if r['tlc_error'] or r['violated'] or not r['no_error']:
            raise MachineryError('design model %s does not satisfy its properties (model bug, not a verdict on the code):\n%s'
                                 % (r['label'], r['out'][-6000:]))
        if coverage:
            cov = r.get('coverage', {})
            need = actions_required if actions_required is not None else [a for a in cov if a != 'Init']
            zero = [a for a in need if cov.get(a, 0) == 0]
            r['coverage_zero_actions'] = zero
            if zero:
                raise MachineryError('vacuity: actions never taken in %s: %s' % (r['label'], zero))
    else:
        if not r['violated']:
            raise MachineryError('negative control %s was expected to violate %s but did not:\n%s'
                                 % (r['label'], expect_inv or 'an invariant', r['out'][-3000:]))
        if expect_inv and not any(v in (expect_inv if isinstance(expect_inv, (list, tuple, set)) else [expect_inv]) for v in r['violated']):
            raise MachineryError('negative control %s violated %s, expected %s' % (r['label'], r['violated'], expect_inv))
    return r


# ------------------------------------------------------------------------------------------------
# trace validation

_RE_AT = re.compile(r'^"?@@(\w+) (.*?)"?$', re.M)


def validate_trace(trace_module, trace_file, *, cfg=None, n_events=None, timeout=1200, cwd=SPEC, env=None,
                   workers=1, heap='8g', constants=None):
    """Validate an ndjson trace recorded from the real code with a Trace_*.tla spec.

    Protocol (see spec/TraceLib.tla): the trace spec consumes the file line by line; for each line it
    evaluates the property's TLA+ definition on the recorded observation and prints
        @@REJECT <line> <tid> <clause>      when the observation contradicts the property,
        @@NOTE <line> <tid> <text>          for informational observations (outside a precondition ...),
    and the POSTCONDITION requires that every line was consumed.
    Returns {'rejects': [{line,tid,clause}], 'notes': [...], 'consumed_all': bool, 'n': lines, ...}.
    """
    if n_events is None:
        with open(trace_file) as f:
            n_events = sum(1 for _ in f)
    if n_events == 0:
        raise MachineryError('empty trace %s' % trace_file)
    if cfg is None:
        cfg = os.path.join(scratch(), 'trace_%s_%d.cfg' % (trace_module, int(time.time() * 1000) % 10 ** 9))
        write_cfg(cfg, init='TInit', next_='TNext', postcondition='TAccepted', constants=constants)
    e = {'TRACE_FILE': os.path.abspath(trace_file)}
    if env:
        e.update(env)
    r = tlc(trace_module, cfg, cwd=cwd, workers=workers, timeout=timeout, env=e, heap=heap)
    if r['timeout']:
        raise MachineryError('trace validation timeout (%s, %d events)' % (trace_module, n_events))
    rejects, notes = [], []
    for m in _RE_AT.finditer(r['out']):
        kind, rest = m.group(1), m.group(2)
        parts = rest.split(' ', 2)
        rec = {'line': int(parts[0]), 'tid': int(parts[1]), 'clause': parts[2] if len(parts) > 2 else ''}
        (rejects if kind == 'REJECT' else notes).append(rec)
    r['rejects'], r['notes'], r['n'] = rejects, notes, n_events
    r['consumed_all'] = r['no_error'] and not r['postcondition_failed']
    if r['tlc_error'] or not r['consumed_all'] or r['violated']:
        raise MachineryError('trace spec %s could not consume the whole trace (%d events); TLC said:\n%s'
                             % (trace_module, n_events, r['out'][-5000:]))
    return r


# ------------------------------------------------------------------------------------------------
# drivers

def driver_env(extra=None):
    e = dict(os.environ)
    pp = [REPO, HARNESS]
    if e.get('PYTHONPATH'):
        pp.append(e['PYTHONPATH'])
    e['PYTHONPATH'] = os.pathsep.join(pp)
    e['PYTHONHASHSEED'] = '0'
    e[GUARD] = '1'
    e['VERIF_REPO'] = REPO
    e.setdefault('OMP_NUM_THREADS', '1')
    e.setdefault('OPENBLAS_NUM_THREADS', '1')
    e.setdefault('MPLBACKEND', 'Agg')
    if extra:
        e.update({k: str(v) for k, v in extra.items()})
    return e


def run_driver(script, args=(), *, timeout=3600, env=None, cwd=None, check=True):
    """Run harness/<script> with the interpreter that has the repository's dependencies."""
    path = script if os.path.isabs(script) else os.path.join(HARNESS, script)
    t0 = time.time()
    p = subprocess.run([PY, path, *map(str, args)], env=driver_env(env), cwd=cwd or scratch(),
                       stdout=subprocess.PIPE, stderr=subprocess.PIPE, text=True, errors='replace', timeout=timeout)
    r = {'rc': p.returncode, 'out': p.stdout, 'err': p.stderr, 'wall_s': time.time() - t0}
    if check and p.returncode != 0:
        raise MachineryError('driver %s failed rc=%d\nstdout:\n%s\nstderr:\n%s' % (script, p.returncode, p.stdout[-3000:], p.stderr[-6000:]))
    return r


def read_ndjson(path):
    with open(path) as f:
        return [json.loads(x) for x in f if x.strip()]


def write_ndjson(path, events):
    with open(path, 'w') as f:
        for e in events:
            f.write(json.dumps(e, separators=(',', ':')) + '\n')
    return path


# ------------------------------------------------------------------------------------------------
# verdicts, known findings, evidence

def load_known():
    """All committed known-findings files: findings/*.json, each {"findings": [ {property,status,key,what,...} ]}."""
    d = os.path.join(VERIF, 'findings')
    out = []
    for fn in sorted(os.listdir(d)) if os.path.isdir(d) else []:
        if fn.endswith('.json'):
            with open(os.path.join(d, fn)) as f:
                out += json.load(f).get('findings', [])
    return out


class Check:
    """One run of one property check: collects TLC statistics, violations and writes the evidence file."""

    def __init__(self, pid, tier, level='model_checking'):
        self.pid, self.tier, self.level = pid, tier, level
        self.t0 = time.time()
        self.seed = seed()
        self.states = 0
        self.transitions = 0
        self.traces = 0
        self.events = 0
        self.samples = []
        self.mc_runs = []
        self.negative_controls = []
        self.violations = []      # dicts: key, what, replay(payload)
        self.known_hits = []
        self.notes = {}
        self.assumptions = []
        self.extra = {}
        self.selftests = []
        self.known = [k for k in load_known() if k.get('property') == pid]

    # -- model checking -------------------------------------------------------------------------
    def add_mc(self, r, kind='design'):
        self.states += r['distinct']
        self.transitions += r['generated']
        rec = {'run': r.get('label'), 'kind': kind, 'distinct_states': r['distinct'], 'states_generated': r['generated'],
               'depth': r.get('depth'), 'wall_s': round(r['wall_s'], 2)}
        if kind == 'negative_control':
            rec['violated'] = r['violated']
            self.negative_controls.append(rec)
        else:
            rec['coverage'] = r.get('coverage')
            self.mc_runs.append(rec)
        return r

    def mc_pass(self, module, cfg, **kw):
        return self.add_mc(mc(module, cfg, expect='pass', **kw), 'design')

    def mc_negative(self, module, cfg, expect_inv=None, **kw):
        return self.add_mc(mc(module, cfg, expect='fail', expect_inv=expect_inv, **kw), 'negative_control')

    # -- conformance ---------------------------------------------------------------------------
    def add_trace_result(self, r, events, key_fn, what_fn=None, n_traces=None, sample_n=3):
        """Fold a validate_trace() result in. key_fn(event, clause) -> finding signature string."""
        tids = set(e.get('tid') for e in events)
        bad_tids = set()
        for rej in r['rejects']:
            ev = events[rej['line'] - 1]
            key = key_fn(ev, rej['clause'])
            what = what_fn(ev, rej['clause']) if what_fn else '%s fails on %s' % (rej['clause'], json.dumps(ev)[:300])
            self.violation(key, what, {'event': ev, 'clause': rej['clause'], 'line': rej['line']})
            bad_tids.add(ev.get('tid'))
        for n in r['notes']:
            self.notes[n['clause'].split(' ')[0]] = self.notes.get(n['clause'].split(' ')[0], 0) + 1
        self.traces += (n_traces if n_traces is not None else len(tids)) - len(bad_tids)
        self.events += len(events)
        for e in events[:sample_n]:
            if len(self.samples) < 8:
                self.samples.append(_shorten(e))
        return r

    def violation(self, key, what, payload):
        for k in self.known:
            if k.get('status') == 'known' and k.get('key') == key:
                if key not in [x['key'] for x in self.known_hits]:
                    self.known_hits.append({'key': key, 'what': k.get('what', what)})
                return
        for v in self.violations:
            if v['key'] == key:
                v['count'] += 1
                return
        self.violations.append({'key': key, 'what': what, 'payload': payload, 'count': 1})

    def selftest(self, name, ok, detail=''):
        self.selftests.append({'name': name, 'ok': bool(ok), 'detail': detail})
        if not ok:
            raise MachineryError('binding self-test failed: %s %s' % (name, detail))

    # -- finish ---------------------------------------------------------------------------------
    def finish(self, rule, exhaustive=False, extra_cov=None):
        os.makedirs(EVIDENCE_DIR, exist_ok=True)
        for kh in self.known_hits:
            print('KNOWN-FINDING: property=%s %s :: %s' % (self.pid, kh['key'], kh['what']))
        vio_lines = []
        if self.violations:
            os.makedirs(REPLAY_DIR, exist_ok=True)
        for i, v in enumerate(self.violations):
            path = os.path.join(REPLAY_DIR, '%s_%s_%d.json' % (self.pid, re.sub(r'[^A-Za-z0-9_.=-]+', '_', v['key'])[:80], i))
            with open(path, 'w') as f:
                json.dump({'property': self.pid, 'key': v['key'], 'what': v['what'], 'count': v['count'], 'seed': self.seed,
                           'tier': self.tier, 'repo': REPO, 'case': v['payload']}, f, indent=1, default=str)
            vio_lines.append('VIOLATION property=%s replay=%s' % (self.pid, path))
            print('  violation key=%s count=%d: %s' % (v['key'], v['count'], v['what'][:400]))
        cov = {
            'states': max(self.states, 0), 'transitions': max(self.transitions, 0),
            'traces_validated_against_impl': self.traces,
            'samples': self.samples or [{'note': 'no sample recorded'}],
            'events_validated': self.events,
            'evaluations': max(self.events, 1),
            'rule': rule, 'exhaustive': bool(exhaustive),
            'mc_runs': self.mc_runs, 'negative_controls': self.negative_controls,
            'binding_selftests': self.selftests, 'observations': self.notes,
            'known_findings_hit': [k['key'] for k in self.known_hits],
        }
        cov.update(self.extra)
        if extra_cov:
            cov.update(extra_cov)
        ev = {'property_id': self.pid, 'tier': self.tier, 'seed': self.seed, 'level': self.level, 'coverage': cov,
              'assumptions': self.assumptions, 'wall_s': round(time.time() - self.t0, 2), 'violations': len(self.violations)}
        with open(os.path.join(EVIDENCE_DIR, '%s.json' % self.pid), 'w') as f:
            json.dump(ev, f, indent=1, default=str)
        for ln in vio_lines:
            print(ln)
        print('%s %s: states=%d transitions=%d traces=%d events=%d violations=%d known=%d wall=%.1fs' % (
            self.pid, self.tier, self.states, self.transitions, self.traces, self.events, len(self.violations),
            len(self.known_hits), time.time() - self.t0))
        return EXIT_VIOLATION if self.violations else EXIT_OK


def _shorten(o, n=400):
    s = json.dumps(o, default=str)
    if len(s) <= n:
        return o
    return {'truncated_json': s[:n] + '...'}


def corrupt_selftest(check, trace_module, events, mutate, name, **kw):
    """Binding self-test: a deliberately corrupted copy of accepted observations must be rejected by TLC."""
    import copy
    ev2 = mutate(copy.deepcopy(events))
    p = os.path.join(scratch(), 'selftest_%s_%s.ndjson' % (trace_module, name))
    write_ndjson(p, ev2)
    try:
        r = validate_trace(trace_module, p, **kw)
        ok = len(r['rejects']) > 0
        detail = '%d rejects' % len(r['rejects'])
    except MachineryError as ex:   # a trace that cannot be consumed at all also counts as rejected
        ok, detail = True, 'not consumable: ' + str(ex)[:120]
    check.selftest(name, ok, detail)


# ------------------------------------------------------------------------------------------------
# spec -> code: scenarios generated by TLC

def scenarios(module, cfg, *, cwd=SPEC, timeout=900, simulate=None, depth=None, seed_=None, limit=None, env=None):
    """Run TLC on a 'generator' configuration of a design spec and collect the scenarios it prints.

    The spec prints   PrintT("@@SCENARIO " \\o ToJson(x))   (usually from a CONSTRAINT that fires in final states),
    one line per scenario; they are returned as Python objects (deduplicated, in order). With simulate='num=N' the
    scenarios are a random sample of behaviours (use seed_), otherwise the exhaustive set of the bounded model.
    workers=1 so that lines are never interleaved.
    """
    r = tlc(module, cfg, cwd=cwd, workers=1, timeout=timeout, simulate=simulate, depth=depth, seed_=seed_, env=env)
    if r['tlc_error'] or r['violated']:
        raise MachineryError('scenario generation %s/%s failed:\n%s' % (module, cfg, r['out'][-3000:]))
    seen, out = set(), []
    for line in r['out'].splitlines():
        if line.startswith('"@@SCENARIO '):
            try:
                s = json.loads(line)
            except ValueError:
                continue
            body = s[len('@@SCENARIO '):]
            if body in seen:
                continue
            seen.add(body)
            out.append(json.loads(body))
            if limit and len(out) >= limit:
                break
    r['scenarios'] = out
    return r
