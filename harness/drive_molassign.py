"""C06 / C07 driver: runs the real MoleculeIterator (+ Molecule.write_tags) on synthetic reads and records raw
observations.  usage: drive_molassign.py <out.ndjson> <tier> <seed> <mode> [scenarios.json]
  mode c06 : 'lib' events   (truth-simulated libraries, tags, re-tagging history)
  mode c07 : 'sched' events (sorted fragment sequences under every check_eject_every / pooling_method;
                             directed cases, random mixes, and TLC-generated scenarios from scenarios.json)
Only drives and records; TLC (Trace_MolAssign) judges.  Every case is generated as an abstract description
first (cell, contig, strand, site, fragment length, read length, soft clip, UMI, validity, input duplicate flag);
the pysam records are derived from it."""
import json
import os
import random
import sys

import pysam

LETTERS = 'ACGTN'
CONTIGS = ['chr1', 'chr11', 'chr1_alt']      # names that are prefixes / substrings of each other
HDR = pysam.AlignmentHeader.from_dict({'HD': {'VN': '1.6', 'SO': 'coordinate'},
                                       'SQ': [{'SN': c, 'LN': 1000000} for c in CONTIGS]})
SINGLE = 10 ** 6     # readlen value meaning "single-end": release position = start


def classes():
    from singlecellmultiomics.molecule import Molecule, NlaIIIMolecule, CHICMolecule
    from singlecellmultiomics.fragment import Fragment, NlaIIIFragment, CHICFragment
    return {'nla': (NlaIIIMolecule, NlaIIIFragment), 'chic': (CHICMolecule, CHICFragment), 'plain': (Molecule, Fragment)}


# ------------------------------------------------------------------------------------------------
# abstract fragment -> reads

def filler(rng, n):
    # no homopolymer runs (CHICFragment rejects 18-mers), never contains CATG
    return ''.join('ACGT'[(i + rng.randint(0, 1)) % 4] if i % 2 else 'ACT'[rng.randint(0, 2)] for i in range(n)).replace('CATG', 'CATA')


def mk(name, contig, start, seq, cigar, rev, d, paired=False, read1=True, mate_start=0):
    a = pysam.AlignedSegment(HDR)
    a.query_name = name
    a.reference_id = contig - 1
    a.reference_start = start
    a.query_sequence = seq
    a.query_qualities = pysam.qualitystring_to_array('I' * len(seq))
    a.cigarstring = cigar
    a.mapping_quality = 0 if d.get('mq0') else 60
    flag = 0x10 if rev else 0
    if paired:
        flag |= 0x1 | 0x2 | (0x40 if read1 else 0x80) | (0 if rev else 0x20)
    if d.get('dup'):
        flag |= 0x400
    if d.get('how') == 'qcfail':
        flag |= 0x200
    a.flag = flag
    if paired:
        a.next_reference_id = contig - 1
        a.next_reference_start = mate_start
    a.set_tag('SM', 'c' + '1' * d['cell'])          # c1, c11, c111, ...: every name is a prefix of the next
    a.set_tag('RX', ''.join(LETTERS[x] for x in d['umi']))
    if d.get('mx'):
        a.set_tag('MX', d['mx'])                 # demultiplexing profile: scCHIC* = first base already trimmed
    if d.get('lh'):
        a.set_tag('lh', d['lh'])                 # ligation motif (copied to RZ by CHICMolecule.__finalise__)
    if d.get('allele'):
        a.set_tag('DA', 'ab'[d['allele'] - 1])   # allele tag used in the NLA hash with use_allele_tag
    return a


def build(kind, idx, d, rng):
    """d: abstract fragment {cell, contig, strand, site, flen, rlen (SINGLE = single end), clip, umi, valid, how, dup}.
    Returns (reads tuple (R1, R2|None), start, end) - start/end = the span the description implies."""
    name = 'f%d' % idx
    site, flen, strand, clip = d['site'], d['flen'], d['strand'], d.get('clip', 0)
    paired = d['rlen'] != SINGLE
    r1len = flen if not paired else min(d['rlen'], flen)         # reference bases covered by R1
    half = paired and d.get('half')                              # R2 unmapped: the fragment is what R1 covers
    if half:
        flen = r1len
    indel = d.get('indel', '') if (not paired and not clip and flen >= 10) else ''
    qadd = {'I': 1, 'D': -1}.get(indel, 0)                       # query length - reference length of R1

    def cig(n):
        k = n // 2
        return '%dM1I%dM' % (k, n - k) if indel == 'I' else ('%dM1D%dM' % (k, n - 1 - k) if indel == 'D' else '%dM' % n)
    motif_ok = not (d.get('how') == 'nomotif')
    # anchor coordinate of R1's 5' end on the reference
    if kind == 'nla':
        a5 = site if strand == 0 else site + 4          # fwd: reference_start(-clip) = site; rev: reference_end(+clip) - 4 = site
    elif kind == 'chic' and d.get('mx'):
        a5 = site + 2 if strand == 0 else site - 1      # trimmed (MX scCHIC*): fwd site = start - 2 ; rev site = end + 1
    elif kind == 'chic':
        a5 = site + 1 if strand == 0 else site          # untrimmed: fwd site = start - 1 ; rev site = end
    else:
        a5 = site                                       # plain: anchor = start (fwd) / end (rev)
    if strand == 0:
        r1s = a5 + clip
        start, end = r1s, r1s + flen
        body = filler(rng, r1len + clip + qadd)
        if kind == 'nla':
            body = ('CATG' if motif_ok else 'CATA') + body[4:] if len(body) >= 4 else body
            if d.get('how') == 'wrongend':
                body = 'CATA' + body[4:-4] + 'CATG'                 # motif on the wrong end of a forward read
        cigar = ('%dS' % clip if clip else '') + cig(r1len)
        r1 = mk(name, d['contig'], r1s, body, cigar, False, d, paired, True, end - min(d['rlen'], flen) if paired else 0)
        r2 = None
        if paired:
            r2len = min(d['rlen'], flen)
            r2 = mk(name, d['contig'], end - r2len, filler(rng, r2len), '%dM' % r2len, True, d, True, False, r1s)
    else:
        r1e = a5 - clip
        end, start = r1e, r1e - flen
        body = filler(rng, r1len + clip + qadd)
        if kind == 'nla':
            body = body[:-4] + ('CATG' if motif_ok else 'TATG') if len(body) >= 4 else body
            if d.get('how') == 'wrongend':
                body = 'CATG' + body[4:-4] + 'TATG'                 # motif on the wrong end of a reverse read
        cigar = cig(r1len) + ('%dS' % clip if clip else '')
        r1 = mk(name, d['contig'], r1e - r1len, body, cigar, True, d, paired, True, start if paired else 0)
        r2 = None
        if paired:
            r2len = min(d['rlen'], flen)
            r2 = mk(name, d['contig'], start, filler(rng, r2len), '%dM' % r2len, False, d, True, False, r1e - r1len)
    if half:
        # half-mapped pair: R2 is unmapped and placed at R1's position (BAM convention); the span is R1's
        u = pysam.AlignedSegment(HDR)
        u.query_name = name
        u.query_sequence = filler(rng, 8)
        u.query_qualities = pysam.qualitystring_to_array('I' * 8)
        u.flag = 0x1 | 0x4 | 0x80 | (0x20 if r1.is_reverse else 0) | (0x400 if d.get('dup') else 0)
        u.reference_id = r1.reference_id
        u.reference_start = r1.reference_start
        u.next_reference_id = r1.reference_id
        u.next_reference_start = r1.reference_start
        u.set_tag('SM', r1.get_tag('SM'))
        u.set_tag('RX', r1.get_tag('RX'))
        r1.flag = (r1.flag | 0x8) & ~0x2 & ~0x20
        r1.next_reference_start = r1.reference_start
        r2 = u
    if d.get('how') == 'homopolymer' and r1 is not None and len(r1.query_sequence) >= 20:
        q = r1.query_sequence
        r1.query_sequence = q[:1] + 'A' * 18 + q[19:]                  # 18 x A: CHICFragment rejects it (max_NUC_stretch)
        r1.query_qualities = pysam.qualitystring_to_array('I' * len(q))
    if paired and not half and d.get('samedir'):
        # both mates on the same strand: Fragment.update_span takes (min start, max start) as the span ("unsafe")
        r2.is_reverse = r1.is_reverse
        r1.mate_is_reverse = r1.is_reverse
        r2.mate_is_reverse = r1.is_reverse
        start, end = min(r1.reference_start, r2.reference_start), max(r1.reference_start, r2.reference_start)
    if d.get('how') == 'r1unmapped':        # a legal unmapped record: flag 0x4, no CIGAR, mapping quality 0
        r1.is_unmapped = True
        r1.cigarstring = None
        r1.mapping_quality = 0
    if d.get('how') == 'r2only':        # R1 missing: not a valid NLA / CHiC fragment
        r1 = None
    return (r1, r2), start, end


GEN_KEYS = ('flen', 'rlen', 'clip', 'how', 'indel', 'half', 'mq0', 'samedir', 'mx', 'lh', 'allele')


def describe(d, start, end):
    # with use_allele_tag the allele (key 'allele' present on every fragment of such a library) is part of the molecule
    # identity: it is folded into the cell of the description
    cell = d['cell'] * 10 + d['allele'] if 'allele' in d else d['cell']
    return {'cell': cell, 'contig': d['contig'], 'strand': d['strand'], 'site': d['site'], 'start': start, 'end': end,
            'umi': list(d['umi']), 'valid': bool(d['valid']), 'dup': bool(d.get('dup', False)),
            'gen': {k: d[k] for k in GEN_KEYS if d.get(k)}}       # generator details, only used to rebuild the input for --replay


def shift_to_zero(kind, frs, rng):
    """Translate the whole case so that its left-most alignment starts at reference position 0."""
    lo = min(min(r.reference_start for r in build(kind, 0, d, rng)[0] if r is not None) for d in frs)
    for d in frs:
        d['site'] -= lo
    return frs


def release_key(d_start, d_end, rlen):
    return max(d_start, d_end - rlen) if rlen != SINGLE else d_start


# ------------------------------------------------------------------------------------------------
# running the real code

def write_bam(path, reads):
    """Coordinate-sorted BAM of the given (R1, R2) tuples (the real input format of the tagger)."""
    import bamgen
    flat = [r for pair in reads for r in pair if r is not None]
    bamgen.write_bam(path, HDR, flat, sort=True, index=False)
    return path


class Abort(BaseException):
    """Not an Exception subclass (like KeyboardInterrupt): raised by the input after some records."""


def iterate(kind, reads, *, hd, radius, cap, pooling, sched, cache, tags, bam=None, reuse=False, shape='tuple', opts=None):
    """One run of the real MoleculeIterator. Returns (molecules, raised): molecules = list of
    {at, ov, recs:[{id, dup, rc, af, tf}]} (tags=True, after write_tags) or {at, ids} (tags=False).
    bam: path of a BAM file to read instead of the iterable (pysam.AlignmentFile -> MatePairIterator inside the
    MoleculeIterator); consumption cannot be observed then and `at` is the number of fragments."""
    from singlecellmultiomics.molecule import MoleculeIterator
    mcls, fcls = classes()[kind]
    consumed = [0]

    fail_after = [None]

    class Source:                      # re-iterable input that counts what the iterator has consumed in the current pass
        def __iter__(self):
            consumed[0] = 0
            for pair in reads:
                if fail_after[0] is not None and consumed[0] >= fail_after[0]:
                    raise Abort()
                consumed[0] += 1
                # the three item shapes MoleculeIterator accepts for a single read: (R1, None), [R1], R1
                if pair[1] is None and shape == 'bare':
                    yield pair[0]
                elif pair[1] is None and shape == 'list1':
                    yield [pair[0]]
                else:
                    yield pair

    def source():
        return Source()

    margs = {'cache_size': cache}
    if cap:
        margs['max_associated_fragments'] = cap
    fargs = {'umi_hamming_distance': hd, 'assignment_radius': radius}
    handle = pysam.AlignmentFile(bam) if bam else None
    opts = opts or {}
    extra = {}
    if opts.get('skip'):
        extra['skip_contigs'] = {CONTIGS[opts['skip'] - 1]}
    if opts.get('minmq'):
        extra['min_mapping_qual'] = opts['minmq']
    if opts.get('yinv'):
        extra['yield_invalid'] = True
    if opts.get('allele'):
        fargs['use_allele_tag'] = True
    if opts.get('maxfs'):
        fargs['max_fragment_size'] = opts['maxfs']
    seen_repr = []
    if opts.get('cb'):
        extra['progress_callback_function'] = lambda i, iterator, rds: seen_repr.append(len(repr(iterator)))
    # perform_qflag=True is the default of the tagger: reads that already carry SM are left alone by the QueryNameFlagger
    it = MoleculeIterator(handle if bam else source(), mcls, fcls, perform_qflag=bool(opts.get('qflag')), pooling_method=pooling,
                          check_eject_every=sched, molecule_class_args=margs, fragment_class_args=fargs, **extra)
    out, raised = [], ''
    try:
        # histories on the same iterator object before the recorded pass: 'break' (True) = abandoned by the consumer after the
        # first molecule; 'error' = the input raises a non-Exception after half of the records; 'complete' = a full pass
        if reuse in (True, 'break'):
            for m in it:
                break
        elif reuse == 'error':
            fail_after[0] = len(reads) // 2
            try:
                for m in it:
                    pass
            except Abort:
                pass
            fail_after[0] = None
        elif reuse == 'complete':
            for m in it:
                pass
        for m in it:
            at = consumed[0] if not bam else len(reads)
            if tags:
                ov = any(r.has_tag('RR') and 'overflow' in str(r.get_tag('RR')).split(',') for r in m.iter_reads())
                m.write_tags()
                recs = []
                for frag in m:
                    rs = [r for r in frag if r is not None]
                    recs.append({'id': int(rs[0].query_name[1:]),
                                 'dup': [bool(r.is_duplicate) for r in rs],
                                 'rc': [int(r.get_tag('RC')) if r.has_tag('RC') else -1 for r in rs],
                                 'af': [int(r.get_tag('af')) if r.has_tag('af') else -1 for r in rs],
                                 'tf': [int(r.get_tag('TF')) if r.has_tag('TF') else -1 for r in rs]})
                out.append({'at': at, 'ov': bool(ov), 'recs': recs})
            else:
                out.append({'at': at, 'ids': [int([r for r in frag if r is not None][0].query_name[1:]) for frag in m]})
    except Exception as ex:      # a crash of the code under test on a legal input is an observation
        raised = type(ex).__name__
    if handle is not None:
        handle.close()
    return out, raised


# ------------------------------------------------------------------------------------------------
# C06: truth-simulated libraries

def near_umi(rng, u, dist):
    v = list(u)
    for p in rng.sample(range(len(v)), dist):
        v[p] = rng.choice([x for x in range(4) if x != v[p]])
    return v


def gen_library(rng, tier):
    kind = rng.choice(['nla', 'nla', 'chic', 'chic', 'plain'])
    hd = rng.choice([0, 0, 1, 1, 2])
    radius = 0 if kind == 'nla' else rng.choice([0, 0, 0, 1, 1, 3, 10])
    if kind == 'nla' and rng.random() < 0.3:
        radius = 1000                  # the NLA default; ignored by the site hash
    cap = rng.choice([0, 0, 0, 0, 1, 2, 3])
    pooling = rng.choice([0, 1, 1])
    paired = rng.random() < 0.5
    rlen = rng.choice([8, 12, 20]) if paired else SINGLE
    ncell = rng.choice([1, 2, 2, 3, 8])
    nsite = rng.choice([1, 2, 3, 5, 8, 40 if tier != 'quick' else 12])
    ulen = rng.choice([2, 3, 3, 4])
    ncontig = rng.choice([1, 1, 2, 3])
    base_sites = sorted(rng.sample(range(100, 100 + 30 * nsite + 60, 1), nsite))
    mx = rng.choice(['', '', 'scCHIC384C8U3', 'scCHIC384C8U3l']) if kind == 'chic' else ''
    use_allele = kind == 'nla' and rng.random() < 0.25
    if rng.random() < 0.4 and nsite >= 2:       # neighbouring sites: 1 .. radius+1 apart
        base_sites[1] = base_sites[0] + rng.choice([1, 2, 3, 4, max(1, radius), radius + 1])
    frs = []
    budget = 36 if tier == 'quick' else 60
    for si, pos in enumerate(base_sites):
        contig = rng.randint(1, ncontig)
        if ncontig > 1 and rng.random() < 0.3 and frs:      # the same coordinates on another contig
            pos, contig = frs[-1]['site'], (frs[-1]['contig'] % ncontig) + 1
        site_umi = [rng.randint(0, 3) for _ in range(ulen)]     # the same UMI in other cells / on the other strand of this site
        for strand in ([0, 1] if rng.random() < 0.5 else [rng.randint(0, 1)]):
            for cell in rng.sample(range(1, ncell + 1), rng.randint(1, min(ncell, 2))):
                umis = [list(site_umi) if rng.random() < 0.6 else [rng.randint(0, 3) for _ in range(ulen)]]
                for _ in range(rng.choice([0, 0, 1, 2, 5])):
                    r = rng.random()
                    if r < 0.35:
                        umis.append(near_umi(rng, umis[0], 1))
                    elif r < 0.6 and ulen >= 2:
                        umis.append(near_umi(rng, umis[0], 2))
                    elif r < 0.75:
                        u = list(umis[0])
                        npos = rng.randrange(ulen)
                        u[npos] = 4                      # N
                        if hd and ulen - 1 >= hd + 1 and rng.random() < 0.3:
                            # a second UMI with N at the SAME position, differing on hd or hd + 1 called positions
                            v = list(u)
                            for q in rng.sample([x for x in range(ulen) if x != npos], hd + rng.randint(0, 1)):
                                v[q] = rng.choice([x for x in range(4) if x != v[q]])
                            umis = [u, v]
                            break
                        if hd and ulen - 1 >= hd and rng.random() < 0.5:
                            # ... and the only other UMI differs from it on exactly hd known positions
                            v = list(umis[0])
                            for q in rng.sample([x for x in range(ulen) if x != npos], hd):
                                v[q] = rng.choice([x for x in range(4) if x != v[q]])
                            umis = [u, v] if rng.random() < 0.5 else [v, u]
                            break
                        umis.append(u)
                    elif r < 0.85 and ulen > 2:
                        umis.append(list(umis[0][:-1]))                  # a UMI of another length
                    else:
                        umis.append([rng.randint(0, 3) for _ in range(ulen)])
                for u in umis[:6]:
                    for _ in range(rng.choice([1, 1, 2, 3, 5])):
                        if len(frs) >= budget:
                            break
                        if kind == 'plain':
                            # plain fragments: the far end varies only between copies when paired; keep starts/ends
                            # of different anchors apart unless this library is meant to be ambiguous
                            flen = rng.choice([6, 7, 9, 14])
                        else:
                            flen = rng.choice([5, 6, 8, 12, 25])
                        d = {'cell': cell, 'contig': contig, 'strand': strand, 'site': pos, 'flen': max(flen, 5),
                             'rlen': rlen, 'clip': 0, 'umi': u, 'valid': True, 'how': '', 'dup': rng.random() < 0.4}
                        if kind != 'plain' and not paired and rng.random() < 0.15:
                            d['clip'] = rng.choice([1, 2, 3])
                        elif not paired and rng.random() < 0.12:
                            d['indel'] = rng.choice(['I', 'D'])           # insertion / deletion inside R1
                        if paired and rng.random() < 0.08:
                            d['half'] = True                              # R2 unmapped
                        if rng.random() < 0.06:
                            d['mq0'] = True                               # mapping quality 0 (still a valid fragment)
                        if paired and not d.get('half') and kind == 'nla' and rng.random() < 0.06:
                            d['samedir'] = True                           # both mates on the same strand ("unsafe" span)
                        if kind == 'chic' and mx:
                            d['mx'] = mx
                        if kind == 'chic' and rng.random() < 0.3:
                            d['lh'] = rng.choice(['TA', 'AA', 'TT'])
                        if use_allele:
                            d['allele'] = rng.choice([0, 1, 1, 2])
                        r = rng.random()
                        if r < 0.06:
                            d['valid'], d['how'] = False, 'qcfail'
                        elif r < 0.10 and kind == 'nla':
                            d['valid'], d['how'] = False, 'nomotif'
                        elif r < 0.13 and kind != 'plain' and paired:
                            d['valid'], d['how'] = False, 'r2only'
                        elif r < 0.15 and kind == 'nla' and flen >= 10 and not d.get('indel') and not d.get('clip'):
                            d['valid'], d['how'] = False, 'wrongend'
                        elif r < 0.17 and kind != 'plain':
                            d['valid'], d['how'] = False, 'r1unmapped'
                        elif r < 0.21 and kind == 'chic' and d['flen'] >= 20 and not paired and not d.get('indel'):
                            d['valid'], d['how'] = False, 'homopolymer'
                        elif r < 0.19 and kind == 'chic' and paired and not d.get('half'):
                            d['valid'], d['samedir'] = False, True        # CHiC rejects pairs that do not point inwards
                        frs.append(d)
    dup_mode = rng.choice(['random', 'random', 'all', 'none', 'first'])
    for i, d in enumerate(frs):
        if dup_mode == 'all':
            d['dup'] = True
        elif dup_mode == 'none':
            d['dup'] = False
    if frs and rng.random() < 0.12:
        shift_to_zero(kind, frs, rng)
    # iterator options on the property's path: the tagger's defaults (perform_qflag, yield_invalid, a progress callback) and
    # its input filters (skip_contigs, min_mapping_qual)
    opts = {'qflag': rng.random() < 0.5, 'cb': rng.random() < 0.3, 'allele': use_allele}
    shape = rng.choice(['tuple', 'bare', 'list1'])
    r = rng.random()
    if r < 0.3:
        opts['yinv'] = True
    elif r < 0.45 and ncontig > 1:
        opts['skip'] = rng.randint(1, ncontig)          # with every item shape, incl. bare AlignedSegments (D62)
    elif r < 0.6:
        opts['minmq'] = 1
    if rng.random() < 0.15:
        opts['maxfs'] = rng.choice([8, 12, 14])
    return {'kind': kind, 'hd': hd, 'radius': radius, 'cap': cap, 'pooling': pooling, 'readlen': rlen,
            'dup_mode': dup_mode, 'shape': shape, 'opts': opts}, frs


def run_library(cfg, frs, rng, tid, retag=True, via_bam=False):
    kind = cfg['kind']
    if cfg.get('zero') and frs:
        shift_to_zero(kind, frs, rng)
    built = []
    for i, d in enumerate(frs):
        pair, s, e = build(kind, 0, d, rng)
        built.append((d, pair, s, e))
    # coordinate-sorted input as the mate-pair iterator releases it; ties in random (seeded) order
    if not cfg.get('keep_order'):
        order = sorted(range(len(built)), key=lambda i: (built[i][0]['contig'], release_key(built[i][2], built[i][3], cfg['readlen']), rng.random()))
        built = [built[i] for i in order]
    if cfg.get('dup_mode') == 'first':          # the fragment that will be rank 0 carries the flag, later ones do not
        seen = set()
        for d, pair, s, e in built:
            k = (d['cell'], d['contig'], d['strand'], d['site'], tuple(d['umi']))
            d['dup'] = k not in seen
            seen.add(k)
    reads = []
    for i, (d, pair, s, e) in enumerate(built):
        for r in pair:
            if r is not None:
                r.query_name = 'f%d' % (i + 1)
                r.is_duplicate = bool(d['dup'])
        reads.append(pair)
    opts0 = cfg.get('opts') or {}
    for d, pair, s, e in built:
        # fragments removed by the iterator's input filters never become fragments: not valid for the truth
        if (opts0.get('skip') == d['contig']) or (opts0.get('minmq') and (d.get('mq0') or d.get('half'))):
            d['valid'] = False
        if opts0.get('maxfs') and e - s > opts0['maxfs']:          # fragment size limit: larger fragments are not valid
            d['valid'] = False
    frags = [describe(d, s, e) for d, pair, s, e in built]
    cache = 10000
    rounds = []
    shape = cfg.get('shape', 'tuple')
    opts = cfg.get('opts') or {}
    r1, raised = iterate(kind, reads, hd=cfg['hd'], radius=cfg['radius'], cap=cfg['cap'], pooling=cfg['pooling'], sched=None,
                         cache=cache, tags=True, shape=shape, opts=opts)
    rounds.append(r1)
    if retag and not raised:
        bam = write_bam(os.path.join(os.getcwd(), 'retag_%d.bam' % tid), reads) if via_bam else None
        r2, raised2 = iterate(kind, reads, hd=cfg['hd'], radius=cfg['radius'], cap=cfg['cap'], pooling=cfg['pooling'], sched=None,
                              cache=cache, tags=True, bam=bam, shape=shape, opts=opts)
        if bam:
            os.remove(bam)
        rounds.append(r2)
        raised = raised2
    ev = {'ev': 'lib', 'tid': tid, 'kind': kind, 'hd': cfg['hd'], 'radius': cfg['radius'], 'cap': cfg['cap'], 'cache': cache,
          'readlen': cfg['readlen'], 'pooling': cfg['pooling'], 'sched': -1, 'frags': frags, 'rounds': rounds, 'raised': raised,
          'yinv': bool(opts.get('yinv')), 'opts': {k: v for k, v in opts.items() if v}}
    if cfg.get('reuse') and not raised:
        # history on ONE iterator object: first iteration abandoned after the first molecule handed out (needs an ejection or an
        # overflow before the end: check on every fragment, small cache), then a complete second iteration; reference = a fresh
        # iterator with the same settings
        rc = 2 * (max([e - s for d, pair, s, e in built] + [1]) + (0 if kind == 'nla' else cfg['radius']) + 8)
        kw = dict(hd=cfg['hd'], radius=cfg['radius'], cap=cfg['cap'], pooling=cfg['pooling'], sched=0, cache=rc, tags=True, shape=shape, opts=opts)
        mode = cfg['reuse'] if isinstance(cfg['reuse'], str) else ('break', 'error', 'complete')[tid % 3]
        fresh, ra = iterate(kind, reads, **kw)
        reused, rb = iterate(kind, reads, reuse=mode, **kw)
        ev['reuse'] = {'sched': 0, 'cache': rc, 'mode': mode, 'raised': ra or rb, 'fresh': fresh, 'reused': reused}
    return ev


def directed_libraries():
    """Hand-picked small libraries for the boundary coincidences named in the property."""
    out = []
    u, v1, v2 = [0, 0, 0], [0, 0, 1], [0, 1, 1]

    def f(cell, contig, strand, site, umi, dup=False, flen=8, rlen=SINGLE, valid=True, how='', clip=0):
        return {'cell': cell, 'contig': contig, 'strand': strand, 'site': site, 'flen': flen, 'rlen': rlen, 'clip': clip,
                'umi': umi, 'valid': valid, 'how': how, 'dup': dup}
    for kind in ('nla', 'chic', 'plain'):
        for pooling in (0, 1):
            base = {'kind': kind, 'pooling': pooling, 'readlen': SINGLE, 'radius': 0, 'cap': 0, 'dup_mode': 'given'}
            # every input duplicate-flag vector of a 3-fragment molecule (D5: rank 0 flagged)
            for bits in range(8):
                out.append((dict(base, hd=0), [f(1, 1, 0, 100, u, dup=bool(bits >> k & 1), flen=8 + k) for k in range(3)]))
            # UMI chain AAA - AAC - ACC under hd 0/1/2, two cells, both strands
            for hd in (0, 1, 2):
                out.append((dict(base, hd=hd), [f(c, 1, s, 100, x) for c in (1, 2) for s in (0, 1) for x in (u, v1, v2, u)]))
            # cap 2 with 4 copies + a different UMI
            out.append((dict(base, hd=0, cap=2), [f(1, 1, 0, 100, u, flen=6 + k) for k in range(4)] + [f(1, 1, 0, 100, v2)]))
            # same coordinates on two contigs
            out.append((dict(base, hd=0), [f(1, 1, 0, 100, u), f(1, 2, 0, 100, u), f(1, 2, 0, 100, u, flen=9)]))
            # empty input, a single fragment, only invalid fragments
            out.append((dict(base, hd=0), []))
            out.append((dict(base, hd=1), [f(1, 1, 0, 100, u)]))
            out.append((dict(base, hd=0), [f(1, 1, 0, 100, u, valid=False, how='qcfail'), f(1, 1, 0, 100, u, valid=False, how='qcfail', flen=9)]))
            # cap 1: every further copy is turned away
            out.append((dict(base, hd=0, cap=1), [f(1, 1, 0, 100, u, flen=6 + k) for k in range(3)] + [f(1, 1, 0, 100, v2)]))
            # left-most alignment at reference position 0 (forward and reverse), mapping quality 0, indels, names c1/c11 + chr1/chr11
            z = [f(1, 1, 0, 100, u), f(1, 1, 0, 100, u, flen=12), f(1, 1, 1, 100, u, flen=10), f(1, 1, 1, 100, u, flen=12),
                 f(2, 1, 0, 100, u), f(1, 2, 0, 100, u), f(2, 2, 0, 100, u), f(3, 3, 0, 100, u), f(3, 3, 0, 100, u, flen=11)]
            z[1]['indel'], z[3]['indel'], z[8]['indel'] = 'I', 'D', 'D'
            z[0]['mq0'] = z[2]['mq0'] = z[3]['mq0'] = True
            out.append((dict(base, hd=0, zero=True), z))
            # half-mapped pairs (R2 unmapped) next to complete pairs and single reads of the same molecule
            hp = [f(1, 1, 0, 100, u, rlen=8, flen=20), f(1, 1, 0, 100, u, rlen=8, flen=16), f(1, 1, 1, 100, u, rlen=8, flen=20),
                  f(1, 1, 1, 100, u, rlen=8, flen=14)]
            hp[1]['half'] = hp[3]['half'] = True
            out.append((dict(base, hd=0, readlen=8), hp))
            # invalid fragments between copies
            out.append((dict(base, hd=0), [f(1, 1, 0, 100, u), f(1, 1, 0, 100, u, valid=False, how='qcfail'), f(1, 1, 0, 100, u, flen=9)]))
            if kind != 'nla':
                # sites within / just outside the radius
                for rad in (1, 2, 5):
                    out.append((dict(base, hd=0, radius=rad), [f(1, 1, 0, 100 + k, u) for k in (0, rad, rad + 1, 2 * rad, 2 * rad + 1)]))
                    # the same UMI again far away on the same cell / contig / strand
                    out.append((dict(base, hd=0, radius=rad), [f(1, 1, st, 100 + k, u) for st in (0, 1) for k in (0, 40, 300, 5000)]))
                    for strand in (0, 1):       # exactly radius apart (may join) / radius + 1 apart (must stay apart)
                        out.append((dict(base, hd=0, radius=rad), [f(1, 1, strand, 100, u), f(1, 1, strand, 100 + rad, u)]))
                        out.append((dict(base, hd=0, radius=rad), [f(1, 1, strand, 100, u), f(1, 1, strand, 100 + rad + 1, u), f(1, 1, strand, 100 + rad + 1, u, flen=9)]))
            # a UMI with N and a UMI that differs on exactly hd of the KNOWN positions (real base at the N position):
            # within the distance whichever of the two arrives first / is the molecule's representative
            N = 4
            for hd, nu, ou in ((1, [0, N, 0], [1, 2, 0]), (1, [N, 0, 0], [2, 0, 3]), (2, [0, N, 0, 0], [1, 2, 3, 0]), (2, [N, N, 0, 0], [1, 1, 2, 3])):
                for first, second in ((nu, ou), (ou, nu)):
                    out.append((dict(base, hd=hd, keep_order=True), [f(1, 1, 0, 100, first), f(1, 1, 0, 100, second, flen=9)]))
                    out.append((dict(base, hd=hd, keep_order=True),
                                [f(1, 1, 0, 100, first), f(1, 1, 0, 100, first, flen=9), f(1, 1, 0, 100, second, flen=10), f(1, 1, 1, 100, second),
                                 f(1, 1, 1, 100, first, flen=9)]))
            # majority UMI CCA, minority error UMI TCA (sorts after it), later CCG: within 1 of the majority only
            cca, tca, ccg = [1, 1, 0], [3, 1, 0], [1, 1, 2]
            out.append((dict(base, hd=1, keep_order=True), [f(1, 1, 0, 100, cca), f(1, 1, 0, 100, cca, flen=9), f(1, 1, 0, 100, tca, flen=10),
                                                            f(1, 1, 0, 100, ccg, flen=11)]))
            # PCR copies of one molecule straddling many other fragments (matters when the buffer is inspected in between)
            out.append((dict(base, hd=0, keep_order=True),
                        [f(1, 1, 0, 100, u)] + [f(c, 1, 0, 100, x) for c in (2, 3) for x in (u, v1)] + [f(1, 1, 0, 100, u, flen=9)]
                        + [f(c, 1, 0, 101, x) for c in (2, 3) for x in (u, v1)] + [f(1, 1, 1, 100, u, flen=20), f(1, 1, 1, 103, u, flen=9),
                                                                                    f(1, 1, 1, 100, u, flen=12)]))
            # two UMIs that both contain N: N at the SAME position and hd + 1 differences on the called positions (must stay
            # apart), N at the same position and exactly hd differences (may join), N at different positions
            for hd, ua, ub_far, ub_near, uc in ((1, [N, 0, 1, 2, 3], [N, 3, 2, 2, 3], [N, 3, 1, 2, 3], [0, N, 2, 2, 3]),
                                              (2, [N, 0, 1, 2, 3], [N, 3, 2, 0, 3], [N, 3, 2, 2, 3], [1, 3, N, 0, 3]),
                                              (1, [0, 1, N, N], [1, 0, N, N], [1, 1, N, N], [0, N, 1, N])):
                for x, y in ((ua, ub_far), (ub_far, ua), (ua, ub_near), (ua, uc), (uc, ub_far)):
                    out.append((dict(base, hd=hd, keep_order=True), [f(1, 1, 0, 100, x), f(1, 1, 0, 100, y, flen=9), f(1, 1, 0, 100, x, flen=10),
                                                                    f(1, 1, 1, 100, y), f(1, 1, 1, 100, x, flen=9)]))
            # UMIs exactly hd + 1 apart must stay apart
            for hd, far in ((0, v1), (1, v2), (2, [1, 1, 1])):
                out.append((dict(base, hd=hd), [f(1, 1, 0, 100, u), f(1, 1, 0, 100, far), f(1, 1, 0, 100, u, flen=9), f(1, 1, 0, 100, far, flen=9)]))
    return out


def probes(emit, tid):
    """A documented input form (bare AlignedSegment items) combined with the iterator's input filters (D62: raised TypeError
    before the fix).  Two copies of one molecule, nothing is filtered: judged like any run (no raise, one molecule)."""
    from singlecellmultiomics.molecule import MoleculeIterator, Molecule
    from singlecellmultiomics.fragment import Fragment
    d = {'cell': 1, 'umi': [0, 1, 2], 'dup': False}
    for what, kw in (('bare_segment_items_with_skip_contigs', {'skip_contigs': {'chr11'}}),
                     ('bare_segment_items_with_min_mapping_qual', {'min_mapping_qual': 1})):
        reads = [mk('f1', 1, 100, 'ACGTACGT', '8M', False, d), mk('f2', 1, 100, 'ACGTACGTA', '9M', False, d)]
        raised, n = '', -1
        try:
            n = len(list(MoleculeIterator(reads, Molecule, Fragment, perform_qflag=False, **kw)))
        except Exception as ex:
            raised = type(ex).__name__
        tid += 1
        emit({'ev': 'probe', 'tid': tid, 'what': what, 'raised': raised, 'molecules': n})
    return tid


def mode_c06(emit, tier, rng):
    tid = probes(emit, 0)
    for cfg, frs in directed_libraries():
        tid += 1
        emit(run_library(dict(cfg, reuse=True), [dict(d) for d in frs], rng, tid))      # incl. the run under ejection
    # re-use history, directed: molecules at two far sites / on two contigs / with a cap (something is handed out early)
    u, v = [0, 1, 2], [3, 3, 0]
    for kind in ('nla', 'chic', 'plain'):
        for pooling in (0, 1):
            for cap in (0, 2):
                base = {'kind': kind, 'pooling': pooling, 'readlen': SINGLE, 'radius': 0, 'cap': cap, 'hd': 0, 'dup_mode': 'given',
                        'reuse': True}
                mkf = lambda site, umi, contig=1, flen=8, dup=False: {'cell': 1, 'contig': contig, 'strand': 0, 'site': site, 'flen': flen,
                                                                        'rlen': SINGLE, 'clip': 0, 'umi': umi, 'valid': True, 'how': '', 'dup': dup}
                tid += 1
                emit(run_library(base, [mkf(100, u), mkf(100, u, flen=9, dup=True), mkf(100, u, flen=10), mkf(100, v), mkf(400, u),
                                        mkf(400, u, flen=9), mkf(700, v), mkf(700, v, flen=9), mkf(700, v, flen=10)], rng, tid))
                tid += 1
                emit(run_library(base, [mkf(100, u), mkf(100, u, flen=9), mkf(100, u, contig=2), mkf(100, u, contig=2, flen=9),
                                        mkf(100, v, contig=3), mkf(100, v, contig=3, flen=9)], rng, tid))
    n = 300 if tier == 'quick' else 6000
    for k in range(n):
        cfg, frs = gen_library(rng, tier)
        if not frs:
            continue
        tid += 1
        emit(run_library(dict(cfg, reuse=(k % 2 == 0)), frs, rng, tid))
    # history through a real BAM file: round 1 tagged in memory, written coordinate-sorted, round 2 reads the file
    # (order of equal coordinates may change, so only configurations whose partition does not depend on the order)
    nb, done = (25 if tier == 'quick' else 400), 0
    while done < nb:
        cfg, frs = gen_library(rng, tier)
        if not frs or cfg['kind'] == 'plain':
            continue
        cfg.update(hd=0, cap=0, radius=0)
        for d in frs:
            d.pop('half', None)
        tid += 1
        done += 1
        emit(dict(run_library(cfg, frs, rng, tid, via_bam=True), via='bam'))


# ------------------------------------------------------------------------------------------------
# C07: schedules

def run_schedules(kind, cfg, frs, rng, tid, scheds=None, poolings=(0, 1), model=None, via_bam=False):
    if cfg.get('zero') and frs:
        shift_to_zero(kind, frs, rng)
    shape = cfg.get('shape', 'tuple')
    built = []
    for d in frs:
        pair, s, e = build(kind, 0, d, rng)
        built.append((d, pair, s, e))
    if not cfg.get('keep_order'):
        order = sorted(range(len(built)), key=lambda i: (built[i][0]['contig'], release_key(built[i][2], built[i][3], cfg['readlen']), rng.random()))
        built = [built[i] for i in order]
    reads = []
    for i, (d, pair, s, e) in enumerate(built):
        for r in pair:
            if r is not None:
                r.query_name = 'f%d' % (i + 1)
        reads.append(pair)
    frags = [describe(d, s, e) for d, pair, s, e in built]
    n = len(reads)
    if scheds is None:
        scheds = [None] + list(range(0, n + 1))
    runs = []
    bam = write_bam(os.path.join(os.getcwd(), 'seq_%d.bam' % tid), reads) if via_bam else None
    for pooling in poolings:
        for sched in scheds:
            emits, raised = iterate(kind, reads, hd=cfg['hd'], radius=cfg['radius'], cap=0, pooling=pooling, sched=sched,
                                    cache=cfg['cache'], tags=False, bam=bam, shape=shape, opts=cfg.get('opts'))
            runs.append({'sched': -1 if sched is None else sched, 'pooling': pooling, 'raised': raised, 'emits': emits})
    if bam:
        os.remove(bam)
    if cfg.get('reuse'):
        for pooling in poolings:
            for sched in [x for x in scheds if x is not None and x <= 2]:
                mode = ('break', 'error', 'complete')[(tid + sched + pooling) % 3]
                emits, raised = iterate(kind, reads, hd=cfg['hd'], radius=cfg['radius'], cap=0, pooling=pooling, sched=sched,
                                        cache=cfg['cache'], tags=False, reuse=mode, shape=shape, opts=cfg.get('opts'))
                runs.append({'sched': sched, 'pooling': pooling, 'raised': raised, 'emits': emits, 'reuse': 1, 'mode': mode})
    return {'ev': 'sched', 'tid': tid, 'kind': kind, 'hd': cfg['hd'], 'radius': cfg['radius'], 'cap': 0, 'cache': cfg['cache'],
            'readlen': cfg['readlen'], 'frags': frags, 'runs': runs, 'model': model or []}


def gen_sequence(rng, tier):
    kind = rng.choice(['nla', 'chic', 'plain'])
    hd = rng.choice([0, 0, 1])
    radius = 0 if kind == 'nla' else rng.choice([0, 0, 1, 2, 4])
    cache = rng.choice([16, 20, 24, 40, 41])
    half = cache // 2
    paired = rng.random() < 0.5
    rlen = rng.choice([5, 6, 8]) if paired else SINGLE
    maxspan = half - radius                         # the region verified by the model: 2*(span+radius) <= cache
    beyond = rng.random() < 0.12                    # a few sequences outside the region: recorded as observations
    ncell = rng.choice([1, 2, 3])
    nsite = rng.choice([2, 3, 4, 5])
    sites = [100 + rng.randint(0, 3 * half) for _ in range(nsite)]
    frs = []
    for pos in sites:
        strand = rng.randint(0, 1)
        for cell in rng.sample(range(1, ncell + 1), rng.randint(1, ncell)):
            for u in ([[0, 1]] if rng.random() < 0.6 else [[0, 1], [0, 2], [3, 3]][:rng.randint(2, 3)]):
                for _ in range(rng.choice([1, 2, 2, 3])):
                    lo = 5
                    hi = max(lo, maxspan if not beyond else cache)
                    flen = rng.choice([lo, lo + 1, hi, hi, rng.randint(lo, hi)])       # short and long ones
                    if kind == 'plain' and rng.random() < 0.8:
                        flen = hi if strand == 0 else flen
                    frs.append({'cell': cell, 'contig': 1 if rng.random() < 0.85 else 2, 'strand': strand, 'site': pos,
                                'flen': flen, 'rlen': rlen, 'clip': 0, 'umi': u, 'valid': True, 'how': '', 'dup': False})
    rng.shuffle(frs)
    frs = frs[:(10 if tier == 'quick' else 14)]
    for d in frs:
        if rng.random() < 0.05:
            d['mq0'] = True
        if rng.random() < 0.05:
            d['valid'], d['how'] = False, 'qcfail'        # dropped by the iterator: must never be emitted under any schedule
    mx = rng.choice(['', 'scCHIC384C8U3']) if kind == 'chic' else ''
    for d in frs:
        if mx:
            d['mx'] = mx
    return kind, {'hd': hd, 'radius': radius, 'cache': cache, 'readlen': rlen, 'zero': rng.random() < 0.12,
                  'shape': rng.choice(['tuple', 'bare', 'list1']), 'opts': {'qflag': rng.random() < 0.5, 'cb': rng.random() < 0.3}}, frs


def directed_sequences():
    """The counterexample of the negative control (long + short molecule ahead of a later duplicate pair), embedded in
    real coordinates for every kind / pooling-relevant bucket layout, and neighbours of the region boundary."""
    out = []
    for kind0 in ('nla', 'plain'):
        out.append((kind0, {'hd': 0, 'radius': 0, 'cache': 20, 'readlen': SINGLE, 'keep_order': True}, []))
        out.append((kind0, {'hd': 0, 'radius': 0, 'cache': 20, 'readlen': SINGLE, 'keep_order': True, 'zero': True},
                    [{'cell': 1, 'contig': 1, 'strand': 0, 'site': 100, 'flen': 8, 'rlen': SINGLE, 'clip': 0, 'umi': [0, 1], 'valid': True,
                      'how': '', 'dup': False}]))

    def f(strand, site, flen, umi=(0, 1), cell=1, contig=1, rlen=SINGLE):
        return {'cell': cell, 'contig': contig, 'strand': strand, 'site': site, 'flen': flen, 'rlen': rlen, 'clip': 0,
                'umi': list(umi), 'valid': True, 'how': '', 'dup': False}
    for kind in ('nla', 'chic', 'plain'):
        for radius in ((0,) if kind == 'nla' else (0, 2)):
            for cache in (20, 24):
                h = cache // 2 - radius
                cfg = {'hd': 0, 'radius': radius, 'cache': cache, 'readlen': SINGLE, 'keep_order': True}
                # L (long), S (short, other UMI), then X twice: ejectable set at X is {S} = index 1 of 3
                out.append((kind, cfg, [f(0, 100, h), f(0, 100, 5, umi=(2, 2)), f(0, 100 + h - 2, h), f(0, 100 + h - 2, h)]))
                # same with S on the reverse strand, and with a third copy arriving one step later
                out.append((kind, cfg, [f(0, 100, h), f(1, 104, 5), f(0, 100 + h - 2, h), f(0, 100 + h - 2, h - 1), f(0, 100 + h - 2, h)]))
                # two short ones around a long one: ejectable indices {0, 2} and {1, 2}
                out.append((kind, cfg, [f(0, 100, 5, umi=(1, 1)), f(0, 100, h), f(0, 101, 5, umi=(2, 2)), f(0, 100 + h - 1, h), f(0, 100 + h - 1, h)]))
                out.append((kind, cfg, [f(0, 100, h), f(0, 100, 5, umi=(1, 1)), f(0, 101, 5, umi=(2, 2)), f(0, 100 + h - 1, h), f(0, 100 + h - 1, h)]))
                # another contig makes everything ejectable
                out.append((kind, cfg, [f(0, 100, h), f(0, 100, 5, umi=(1, 1)), f(0, 100, h, contig=2), f(0, 100, 6, contig=2)]))
                # reverse-strand duplicates (same end, different starts) separated by an unrelated long fragment
                out.append((kind, cfg, [f(1, 130, h), f(0, 131 - h + 1, h, umi=(3, 3)), f(1, 130, 5)]))
                # the first one again with the left-most alignment at reference position 0
                out.append((kind, dict(cfg, zero=True), [f(0, 100, h), f(0, 100, 5, umi=(2, 2)), f(0, 100 + h - 2, h), f(0, 100 + h - 2, h)]))
    # one bucket (plain; CHiC with radius) holding ejectable / still open / ejectable molecules in that order when the check
    # fires, then a later fragment that joins the open one (reverse strand: same end, later start)
    for kind, radius in (('plain', 0), ('plain', 2), ('chic', 2), ('chic', 4), ('nla', 0)):
        for cache in (40, 48):
            h = cache // 2 - radius
            cfg = {'hd': 0, 'radius': radius, 'cache': cache, 'readlen': SINGLE, 'keep_order': True}

            def rv(start, end, umi, cell=1):       # reverse single-end fragment [start, end)
                site = end if kind == 'plain' else (end if kind == 'chic' else end - 4)
                return f(1, site, end - start, umi=umi, cell=cell)
            out.append((kind, cfg, [rv(100, 105, (1, 1)), rv(100, 100 + h, (0, 1)), rv(101, 106, (2, 2)),
                                    rv(107 + radius, 107 + radius + h, (3, 3)), rv(108 + radius, 100 + h, (0, 1))]))
            # three ejectable ones around two open ones
            out.append((kind, cfg, [rv(100, 105, (1, 1)), rv(100, 100 + h, (0, 1)), rv(101, 106, (2, 2)), rv(101, 100 + h - 1, (0, 2)),
                                    rv(102, 107, (2, 3)), rv(108 + radius, 108 + radius + h, (3, 3)),
                                    rv(109 + radius, 100 + h, (0, 1)), rv(109 + radius, 100 + h - 1, (0, 2))]))
    # a molecule whose second fragment reaches further right than its first, an unrelated fragment ending between
    # first-end + cache/2 and true-end + cache/2, then a fragment that joins at the true right border
    for cache in (40, 48):
        h = cache // 2
        cfg = {'hd': 0, 'radius': 0, 'cache': cache, 'readlen': SINGLE, 'keep_order': True}
        # plain: joins by its END (start-or-end matching)
        out.append(('plain', cfg, [f(0, 100, 5), f(0, 100, h), f(0, 107, h, umi=(3, 3)), f(0, 108, h - 8)]))
        out.append(('plain', cfg, [f(0, 100, 5), f(0, 100, 9), f(0, 100, h), f(0, 112, h, umi=(3, 3)), f(0, 113, h - 13), f(0, 114, h - 14)]))
        # CHiC radius 4, reverse strand: sites 110 and 114 form the molecule (right border 114), joiner at site 118
        cfg4 = dict(cfg, radius=4)
        h4 = h - 4
        out.append(('chic', cfg4, [f(1, 110, 10), f(1, 114, 13), f(1, 115 + h4, h4, umi=(3, 3)), f(1, 118, 2)]))
    # plain fragments, exact UMIs: a short first member, a longer later member (same start), then a fragment of the same cell /
    # UMI that shares only the END of the longer member (and the mirror image on the reverse strand): both pooling methods
    # must group all three
    for cache in (40, 400):
        cfg = {'hd': 0, 'radius': 0, 'cache': cache, 'readlen': SINGLE, 'keep_order': True}
        out.append(('plain', cfg, [f(0, 90, 6, umi=(3, 3)), f(0, 100, 6), f(0, 100, 16), f(0, 100, 16, cell=2), f(0, 108, 8), f(0, 150, 6, umi=(3, 3)),
                                   f(0, 150, 6, umi=(3, 3))]))
        out.append(('plain', cfg, [f(0, 100, 6), f(0, 100, 10), f(0, 100, 16), f(0, 105, 11), f(0, 108, 8)]))
        # reverse strand (anchor = end): first member [104,120), later member [100,120) extends to the left, candidate [100,110)
        out.append(('plain', cfg, [f(1, 120, 20), f(1, 110, 10), f(1, 120, 16)]))
        out.append(('plain', cfg, [f(1, 120, 16), f(1, 120, 20), f(1, 110, 10)]))
        # a tie: the candidate shares its END with the older molecule and its START with the newer one (first-fit: the older)
        out.append(('plain', cfg, [f(0, 100, 10), f(0, 105, 15), f(0, 105, 5)]))
        out.append(('plain', cfg, [f(0, 100, 10), f(0, 105, 15), f(0, 100, 8, cell=2), f(0, 105, 5), f(0, 105, 15), f(0, 100, 10)]))
        # ... with an older unrelated molecule that is ejected while both candidates are open (the survivors must keep their
        # order: first-fit picks the older one under every schedule), one and two ejectable molecules, and twice in a row
        out.append(('plain', cfg, [f(0, 50, 5, umi=(3, 3)), f(0, 100, 10), f(0, 105, 15), f(0, 105, 5)]))
        out.append(('plain', cfg, [f(0, 50, 5, umi=(3, 3)), f(0, 51, 5, umi=(2, 2)), f(0, 100, 10), f(0, 105, 15), f(0, 105, 5), f(0, 105, 5)]))
        out.append(('plain', cfg, [f(0, 50, 5, umi=(3, 3)), f(0, 100, 10), f(0, 104, 12, umi=(2, 2)), f(0, 105, 15), f(0, 105, 5),
                                   f(0, 104, 6, umi=(2, 2))]))
        # paired-end input is released when the second mate is read, so starts are not monotonic: molecule opened by A, joined
        # through an end match by B that starts further upstream, then C that matches only via B's start (and the mirror image
        # on the reverse strand / with an end contributed by the second member)
        pc = dict(cfg, readlen=5)
        out.append(('plain', pc, [f(0, 115, 20, rlen=5), f(0, 110, 25, rlen=5), f(0, 110, 26, rlen=5)]))
        out.append(('plain', pc, [f(0, 115, 20, rlen=5), f(0, 112, 23, cell=2, rlen=5), f(0, 110, 25, rlen=5), f(0, 110, 25, umi=(2, 2), rlen=5),
                                  f(0, 110, 26, rlen=5), f(0, 105, 33, rlen=5), f(0, 105, 40, rlen=5)]))
        out.append(('plain', pc, [f(1, 135, 20, rlen=5), f(1, 135, 25, rlen=5), f(1, 136, 26, rlen=5)]))
        out.append(('plain', pc, [f(0, 115, 20, rlen=5), f(0, 115, 22, rlen=5), f(0, 111, 26, rlen=5)]))
        # finding D61: the candidate matches an INTERIOR member only (end 110 < envelope end 115, start 102 > envelope start 100):
        # pooling 0 (member comparison) groups it, pooling 1 (envelope comparison) does not
        out.append(('plain', cfg, [f(0, 100, 10), f(0, 100, 15), f(0, 102, 8)]))
    # UMI ties at hamming 1 (NLA / CHiC, pooling 0 compares with members): AA and CC are two molecules of one site, AC is
    # within 1 of both and has to join the older one under every schedule, also after an older molecule was ejected in between
    for kind in ('nla', 'chic'):
        for cache in (40, 48):
            cfg = {'hd': 1, 'radius': 0, 'cache': cache, 'readlen': SINGLE, 'keep_order': True}
            out.append((kind, cfg, [f(0, 50, 6, umi=(3, 3)), f(0, 100, 10, umi=(0, 0)), f(0, 100, 11, umi=(1, 1)), f(0, 100, 12, umi=(0, 1)),
                                    f(0, 100, 9, umi=(0, 1))]))
            out.append((kind, cfg, [f(0, 50, 6, umi=(3, 3)), f(0, 52, 6, umi=(2, 2)), f(1, 100, 10, umi=(0, 0)), f(1, 100, 8, umi=(1, 1)),
                                    f(1, 100, 6, umi=(0, 1))]))
    # cache sizes above the default 10,000 and long fragments (span <= cache/2): a long fragment of another cell fires the
    # check while a short molecule at the same start still receives copies (ties in start: order as listed)
    for kind in ('nla', 'plain', 'chic'):
        for cache, long_ in ((50000, 8100), (100000, 20000), (20000, 6000)):
            cfg = {'hd': 0, 'radius': 0, 'cache': cache, 'readlen': SINGLE, 'keep_order': True}
            out.append((kind, cfg, [f(0, 100, 50), f(0, 100, long_, cell=2), f(0, 100, 60), f(0, 100, 55), f(0, 100, long_, cell=2)]))
            out.append((kind, cfg, [f(0, 100, 50), f(0, 100, 60, umi=(2, 2)), f(0, 100, long_, cell=2), f(0, 100, long_ - 7, cell=3), f(0, 100, 60),
                                    f(0, 100, 70, umi=(2, 2)), f(1, 100 + long_, 80), f(1, 100 + long_, 90)]))
    return out


def scale_sequence(kind, cfg, frs, rng, S=1000):
    """A random sequence blown up by S (coordinates relative to 100, lengths, cache, radius, read length): cache sizes of
    16,000 .. 41,000 with fragments up to cache/2; a third of the fragments keep a short length."""
    for d in frs:
        d['site'] = 100 + (d['site'] - 100) * S
        d['flen'] = d['flen'] * S if rng.random() < 0.66 else d['flen'] + 40
        if d['rlen'] != SINGLE:
            d['rlen'] *= S
    return kind, dict(cfg, cache=cfg['cache'] * S, radius=cfg['radius'] * S,
                      readlen=cfg['readlen'] if cfg['readlen'] == SINGLE else cfg['readlen'] * S), frs


def scenario_to_case(s, K=6, off=100):
    kind = s['kind']
    frs = []
    for a in s['frags']:
        site = off + K * a['site'] if a['strand'] == 0 else off + K * (a['site'] + 1) + (1 if kind == 'chic' else (-4 if kind == 'nla' else 0))
        frs.append({'cell': a['cell'], 'contig': a['contig'], 'strand': a['strand'], 'site': site, 'flen': K * a['len'],
                    'rlen': SINGLE if s['readlen'] * K >= 10 ** 4 else K * s['readlen'], 'clip': 0, 'umi': list(a['umi']),
                    'valid': bool(a['valid']), 'how': '' if a['valid'] else 'qcfail', 'dup': False})
    rl = frs[0]['rlen'] if frs else SINGLE
    cfg = {'hd': s['hd'], 'radius': K * s['radius'], 'cache': K * s['cache'], 'readlen': rl, 'keep_order': True}
    sched = None if s['sched'] == 1000 else s['sched']
    model = [m['ids'] for m in s['emits']]
    return kind, cfg, frs, sched, s['pooling'], model


def mode_c07(emit, tier, rng, scenario_file):
    tid = 0
    for kind, cfg, frs in directed_sequences():
        tid += 1
        emit(run_schedules(kind, dict(cfg, reuse=True), frs, rng, tid))
    if scenario_file and os.path.exists(scenario_file):
        with open(scenario_file) as fh:
            scns = json.load(fh)
        for s in scns:
            if not s['frags']:
                continue
            kind, cfg, frs, sched, pooling, model = scenario_to_case(s)
            tid += 1
            # runs[0] = the scenario's own (schedule, pooling) - compared with the model's groups; then the never-ejecting run
            # and both again with the other pooling method
            emit(run_schedules(kind, cfg, frs, rng, tid, scheds=[sched] + ([None] if sched is not None else []),
                               poolings=(pooling, 1 - pooling), model=model))
    n = 400 if tier == 'quick' else 4000
    for k in range(n):
        kind, cfg, frs = gen_sequence(rng, tier)
        tid += 1
        emit(run_schedules(kind, dict(cfg, reuse=(k % 4 == 0)), frs, rng, tid))
    # paired plain fragments sharing an END with starts further and further upstream, each followed by a fragment that shares only
    # the newest START (released in order of the second mate: starts are not monotonic), plus decoys of another cell / UMI
    for k in range(20 if tier == 'quick' else 200):
        rl = rng.choice([4, 5, 6])
        end = 160 + rng.randint(0, 20)
        starts = sorted(rng.sample(range(end - 40, end - 8), rng.randint(2, 4)), reverse=True)
        frs, umi = [], [0, 1]
        for i, st in enumerate(starts):
            frs.append({'cell': 1, 'contig': 1, 'strand': 0, 'site': st, 'flen': end - st, 'rlen': rl, 'clip': 0, 'umi': umi, 'valid': True,
                        'how': '', 'dup': False})
            if rng.random() < 0.4:
                frs.append(dict(frs[-1], cell=2) if rng.random() < 0.5 else dict(frs[-1], umi=[3, 3]))
        ext = end
        for st in starts[1:][::-1][:rng.randint(1, 2)] + [starts[-1]]:
            ext += rng.randint(1, 3)
            frs.append({'cell': 1, 'contig': 1, 'strand': 0, 'site': st, 'flen': ext - st, 'rlen': rl, 'clip': 0, 'umi': umi, 'valid': True,
                        'how': '', 'dup': False})
        tid += 1
        emit(run_schedules('plain', {'hd': 0, 'radius': 0, 'cache': rng.choice([100, 400]), 'readlen': rl, 'keep_order': True,
                                     'shape': 'tuple'}, frs, rng, tid))
    # large caches (above the default cache_size) and long fragments
    for k in range(12 if tier == 'quick' else 80):
        kind, cfg, frs = gen_sequence(rng, tier)
        kind, cfg, frs = scale_sequence(kind, cfg, frs[:8], rng)
        tid += 1
        emit(run_schedules(kind, cfg, frs, rng, tid))
    # the same through a coordinate-sorted BAM file and the MatePairIterator inside the MoleculeIterator
    for _ in range(20 if tier == 'quick' else 300):
        kind, cfg, frs = gen_sequence(rng, tier)
        tid += 1
        emit(dict(run_schedules(kind, cfg, frs, rng, tid, via_bam=True), via='bam'))


def undescribe(kind, ev, fr):
    """Recorded fragment description -> abstract fragment (for --replay: the same input is rebuilt and re-run)."""
    flen = fr['end'] - fr['start']
    if kind == 'nla':
        clip = fr['start'] - fr['site'] if fr['strand'] == 0 else fr['site'] + 4 - fr['end']
    elif kind == 'chic':
        clip = fr['start'] - (fr['site'] + 1) if fr['strand'] == 0 else fr['site'] - fr['end']
    else:
        clip = 0
    d = {'cell': fr['cell'], 'contig': fr['contig'], 'strand': fr['strand'], 'site': fr['site'], 'flen': flen,
         'rlen': ev['readlen'], 'clip': clip, 'umi': fr['umi'], 'valid': fr['valid'], 'how': '' if fr['valid'] else 'qcfail',
         'dup': fr.get('dup', False)}
    d.update(fr.get('gen', {}))          # exact generator details when recorded
    return d


def mode_replay(emit, rng, event_file):
    with open(event_file) as fh:
        ev = json.load(fh)
    kind = ev['kind']
    frs = [undescribe(kind, ev, fr) for fr in ev['frags']]
    cfg = {'kind': kind, 'hd': ev['hd'], 'radius': ev['radius'], 'cap': ev['cap'], 'cache': ev['cache'], 'readlen': ev['readlen'],
           'keep_order': True, 'dup_mode': 'given'}
    if ev['ev'] == 'lib':
        cfg['pooling'] = ev['pooling']
        built = [(d,) + build(kind, 0, d, rng) for d in frs]
        reads = []
        for i, (d, pair, s, e) in enumerate(built):
            for r in pair:
                if r is not None:
                    r.query_name = 'f%d' % (i + 1)
            reads.append(pair)
        rounds = []
        for _ in range(len(ev['rounds'])):
            r, raised = iterate(kind, reads, hd=cfg['hd'], radius=cfg['radius'], cap=cfg['cap'], pooling=cfg['pooling'], sched=None,
                                cache=cfg['cache'], tags=True)
            rounds.append(r)
        emit(dict(ev, frags=[describe(d, s, e) for d, pair, s, e in built], rounds=rounds))
    else:
        scheds, poolings = [], []
        for r in ev['runs']:
            sc = None if r['sched'] == -1 else r['sched']
            if sc not in scheds:
                scheds.append(sc)
            if r['pooling'] not in poolings:
                poolings.append(r['pooling'])
        emit(run_schedules(kind, cfg, frs, rng, ev['tid'], scheds=scheds, poolings=poolings, model=ev.get('model')))


def main():
    out, tier, seed, mode = sys.argv[1], sys.argv[2], int(sys.argv[3]), sys.argv[4]
    rng = random.Random(seed)
    with open(out, 'w') as fh:
        def emit(e):
            fh.write(json.dumps(e, separators=(',', ':')) + '\n')
        if mode == 'c06':
            mode_c06(emit, tier, rng)
        elif mode == 'replay':
            mode_replay(emit, rng, sys.argv[5])
        else:
            mode_c07(emit, tier, rng, sys.argv[5] if len(sys.argv) > 5 else None)


if __name__ == '__main__':
    main()
