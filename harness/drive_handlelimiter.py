"""C19 driver: replays write/close/fault scenarios into the real HandleLimiter (directly and through
FastqHandle(single_cell=True)) and drives bamSplitByTag over its passes; records raw observations only.

usage: drive_handlelimiter.py <out.ndjson> <tier> <seed> [<scenarios.json>]

Fault injection (no source hooks): the module-level names `handlelimiter.gzip` and `handlelimiter.open` are replaced by
wrappers that keep their own descriptor accounting (a handle counts as open from a successful open() until its
close() is called - a handle that is merely dropped stays open, as on an OS without reference counting).
  open() fails  - with EMFILE iff K descriptors are open,
                - always for the permanently failing path,
                - at the attempt numbers listed in `tfs` (transient failure).
`handlelimiter.time` is replaced by a strictly increasing counter in scenario replays so that the least-recently-written
order of prune() is the one of the write sequence (real clocks can tie); random runs keep the real clock.

Files of an earlier run: the paths listed in `stale` exist before the run and hold the single record 0.
Records: distinct positive integers, one line each; x = 0 is an EMPTY record (writes nothing, the file must still exist).
With `paired` (fqrand only) FastqHandle.write gets (R1, R2): mate 2 goes to path id p + 500 with payload x + 100000; every inner
HandleLimiter.write call is recorded as its own observation (the bound method is wrapped by the driver).
Watchdog: a write() that makes more than 8 open() attempts is aborted by the wrapper (BaseException) and recorded as raised="Hang".
Target paths are spelled plainly, with a doubled slash or with a `/./` component (field `spelling` 0/1/2).
Event "run":  {ev, tid, src: gen|fq|rand|fqrand, method, K, mh, pe, bad, tfs, stale, paired,
               ops:[{op:"w"|"c", p, x, raised, att:[{p, append, nopen, ok}], open:[paths with an OS descriptor],
                     tracked:[paths with a handle in openHandles]}],
               final:[{p, recs:[..], ok}], fds_end, exp:{has, ops:[{raised, open}], disk:[[..]..]}}
Event "split": {ev, tid, max_handles, recs:[raw value id per input record, 0 = no tag], fmap:[output file id per raw value id],
                passes, out:[{v: file id, idx:[..]}]}
No judgement here: TLC (Trace_HandleLimiter) decides."""
import contextlib
import errno
import gzip
import io
import json
import os
import random
import shutil
import sys
import zlib

import bamgen

REAL_OPEN = open
REAL_GZIP_OPEN = gzip.open


class WriteHang(BaseException):
    """Raised by the injected open() when one write() call keeps re-trying: the call does not end (watchdog).
    A BaseException, so that the `except Exception` of the code under test cannot swallow it."""


MAX_ATTEMPTS_PER_CALL = 8      # the design makes at most 2 open() attempts per write()


class Proxy:
    """File-handle proxy: forwards everything, reports close() to the injector."""

    def __init__(self, inj, real, pid):
        self._inj, self._real, self._pid, self._closed = inj, real, pid, False
        inj.live[id(self)] = self

    def write(self, data):
        return self._real.write(data)

    def close(self):
        if not self._closed:
            self._closed = True
            self._inj.live.pop(id(self), None)
        return self._real.close()

    def __getattr__(self, name):
        return getattr(self._real, name)


class Injector:
    def __init__(self, K, bad_path, tfs, path_id):
        self.K, self.bad_path, self.tfs, self.path_id = K, bad_path, set(tfs), path_id
        self.live = {}          # id(proxy) -> proxy, every handle opened and not yet closed
        self.attempt = 0
        self.att = []           # attempts of the current call

    def _open(self, real_open, path, mode, *a, **k):
        if len(self.att) >= MAX_ATTEMPTS_PER_CALL:
            raise WriteHang()
        self.attempt += 1
        rec = {'p': self.path_id(path), 'append': 'a' in mode, 'nopen': len(self.live), 'ok': False}
        self.att.append(rec)
        if path == self.bad_path:
            raise PermissionError(errno.EACCES, 'injected: permanently failing path', path)
        if self.attempt in self.tfs:
            raise OSError(errno.EIO, 'injected: transient failure', path)
        if len(self.live) >= self.K:
            raise OSError(errno.EMFILE, 'injected: too many open files', path)
        real = real_open(path, mode, *a, **k)
        rec['ok'] = True
        return Proxy(self, real, self.path_id(path))

    def gzip_open(self, path, mode='rb', *a, **k):
        return self._open(REAL_GZIP_OPEN, path, mode, *a, **k)

    def plain_open(self, path, mode='r', *a, **k):
        return self._open(REAL_OPEN, path, mode, *a, **k)

    def open_paths(self):
        return sorted(p._pid for p in self.live.values())

    def force_close_all(self):      # cleanup after the observation, not part of it
        for p in list(self.live.values()):
            try:
                p.close()
            except Exception:
                pass


class GzipShim:
    """Stands in for the name `gzip` inside handlelimiter: only `open` is used there."""

    def __init__(self, inj):
        self.open = inj.gzip_open

    def __getattr__(self, name):
        return getattr(gzip, name)


class Clock:
    def __init__(self):
        self.t = 0

    def time(self):
        self.t += 1
        return float(self.t)


def read_members(path, method):
    """Content of a produced file as the list of integer records; ok = stdlib could read every gzip member to the end."""
    with REAL_OPEN(path, 'rb') as f:
        raw = f.read()
    ok = True
    if method == 1:
        data = b''
        rest = raw
        while rest:
            d = zlib.decompressobj(wbits=31)
            try:
                data += d.decompress(rest)
                if not d.eof:
                    ok = False
                    break
                rest = d.unused_data
            except zlib.error:
                ok = False
                break
        if ok and raw:
            try:                               # second observer: the gzip module itself
                with REAL_GZIP_OPEN(path, 'rb') as g:
                    ok = g.read() == data
            except Exception:
                ok = False
    else:
        data = raw
    recs = []
    for tok in data.decode('latin-1').split('\n'):
        if tok == '':
            continue
        recs.append(int(tok) if tok.isdigit() and len(tok) < 10 else -1)
    return recs, ok


class SplitHang(BaseException):
    """Raised by the driver's watchdog inside a bamSplitByTag run that does not end."""


def _alarm(signum, frame):
    raise SplitHang()


class PassCounter(io.StringIO):
    """stdout sink of an in-process bamSplitByTag run: counts the passes and stops a run that makes too many."""

    def __init__(self, cap):
        super().__init__()
        self.cap, self.passes = cap, 0

    def write(self, text):
        n = text.count('Iteration ')
        if n:
            self.passes += n
            if self.passes > self.cap:
                raise SplitHang()
        return len(text)


class SerialPool:
    """Stand-in for multiprocessing.Pool in bamSplitByTag's indexing step (in-process runs only)."""

    def __init__(self, n=None):
        pass

    def __enter__(self):
        return self

    def __exit__(self, *a):
        return False

    def imap_unordered(self, fn, it):
        return [fn(x) for x in it]


class Rec:
    """Minimal stand-in for a demultiplexed record: FastqHandle reads .tags and str()."""

    def __init__(self, cell, x, mx='mx'):
        self.tags = {'bi': cell, 'MX': mx}
        self.x = x

    def __str__(self):
        return '%d\n' % self.x if self.x else ''        # x = 0: an empty record (writes nothing, but the file must exist)


def run_scenario(hl_mod, fh_mod, workdir, scn, src, method, det_clock):
    """scn: {K, mh, pe, bad, tfs, ops:[{op,p,x}]}. Returns the observation part of a run event."""
    if os.path.isdir(workdir):
        shutil.rmtree(workdir)
    os.makedirs(workdir)
    via_fq = src.startswith('fq')
    # target paths as callers really spell them: plain, with a doubled slash (demux.py builds `out//lib/...` for `-o out/`)
    # or with a `/./` component; the same spelling is used for every write to a file
    spelling = (scn['K'] + scn['pe'] + len(scn['ops'])) % 3
    wdir = workdir + ('', '/', '/.')[spelling]
    prefix = wdir + '/o'

    # cell identifiers as the demultiplexer stores them: integer barcode indices starting at 0 (falsy but valid) in the
    # replayed TLC behaviours and half of the random runs, strings otherwise; MX is the integer 0 in some runs
    int_bi = src == 'fq' or scn['K'] % 2 == 0
    mx = 0 if scn['pe'] % 2 == 0 else 'mx'

    def cell_of(p):
        return p - 1 if int_bi else 'c%d' % p

    paired = bool(scn.get('paired')) and via_fq      # (R1, R2) pairs: two limiter writes per FastqHandle.write call

    def path_of(p):
        if via_fq and p in (998, 999):               # file of records without cell tags (pre-formatted strings)
            return '%s.no_cell_id.unk.R%d.fastq.gz' % (prefix, p - 997)
        if via_fq and p > 500:                       # mate-2 file of cell p - 500
            return '%s.%s.%s.R2.fastq.gz' % (prefix, cell_of(p - 500), mx)
        if via_fq:
            return '%s.%s.%s.R1.fastq.gz' % (prefix, cell_of(p), mx)
        return wdir + '/' + 'f%d.%s' % (p, 'gz' if method == 1 else 'txt')

    ids = {}

    def path_id(path):
        return ids.get(os.path.basename(path), 0)

    for p in set(o['p'] for o in scn['ops'] if o['op'] == 'w') | ({scn['bad']} if scn['bad'] else set()) | set(scn.get('stale', [])):
        ids[os.path.basename(path_of(p))] = p
        if paired and p <= 500:
            ids[os.path.basename(path_of(p + 500))] = p + 500
    if paired:
        ids[os.path.basename(path_of(998))] = 998
        ids[os.path.basename(path_of(999))] = 999
    cells = sorted(set(o['p'] for o in scn['ops'] if o['op'] == 'w')) or [1]
    intended = {}        # payload -> path id of the file the record BELONGS to (the cell of the record itself)
    # files of an "earlier run" that already exist at some target paths: one stale record 0
    for p in scn.get('stale', []):
        if via_fq or method == 1:
            with REAL_GZIP_OPEN(path_of(p), 'wb') as g:
                g.write(b'0\n')
        else:
            with REAL_OPEN(path_of(p), 'w') as g:
                g.write('0\n')
    inj = Injector(scn['K'], path_of(scn['bad']) if scn['bad'] else None, scn['tfs'], path_id)
    hl_mod.gzip = GzipShim(inj)
    hl_mod.open = inj.plain_open
    hl_mod.time = Clock() if det_clock else __import__('time')
    if via_fq:
        fh = fh_mod.FastqHandle(prefix, pairedEnd=False, single_cell=True, maxHandles=scn['mh'])
        fh.handles.pruneEvery = scn['pe']
        lim = fh.handles
    else:
        fh = None
        lim = hl_mod.HandleLimiter(maxHandles=scn['mh'], pruneEvery=scn['pe'], compressionLevel=1)
    ops = []
    sink = io.StringIO()

    def observe(op, p, x, raised):
        ops.append({'op': op, 'p': p, 'x': x, 'raised': raised, 'att': inj.att, 'open': inj.open_paths(),
                    'tracked': sorted(path_id(k) for k, v in lim.openHandles.items() if 'handle' in v)})

    if via_fq:
        # FastqHandle.write makes one HandleLimiter.write per mate: record every inner call as its own observation
        inner_write = lim.write

        def recording_write(path, string, method=None, forceAppend=False):
            inj.att = []
            x = int(string) if string.strip().isdigit() else 0
            # p = the file the record belongs to according to the driver's description of the record (its own cell tags),
            # not the file the code chose; for an empty record the chosen file is taken
            pid = intended.get(x, path_id(path))
            try:
                inner_write(path, string, method=method, forceAppend=forceAppend)
            except WriteHang:
                observe('w', pid, x, 'Hang')
                raise
            except Exception as ex:
                observe('w', pid, x, type(ex).__name__)
                raise
            observe('w', pid, x, 'none')
        lim.write = recording_write
    for o in scn['ops']:
        inj.att = []
        raised = 'none'
        n_before = len(ops)
        try:
            with contextlib.redirect_stdout(sink):
                if o['op'] == 'w':
                    if via_fq:
                        recs = [Rec(cell_of(o['p']), o['x'], mx)]
                        if o['x']:
                            intended[o['x']] = o['p']
                        if paired:
                            x2 = o['x'] + 100000 if o['x'] else 0
                            kind = o['x'] % 4 if o['x'] else 2
                            if kind == 0:        # the mate carries the tags of ANOTHER cell: it belongs to that cell's file
                                p2 = cells[(cells.index(o['p']) + 1) % len(cells)]
                                recs.append(Rec(cell_of(p2), x2, mx))
                                intended[x2] = p2 + 500
                            elif kind == 1:      # an already formatted mate (plain string, no tags): the no_cell_id.unk file
                                recs.append('%d\n' % x2)
                                intended[x2] = 999
                            else:
                                recs.append(Rec(cell_of(o['p']), x2, mx))
                                if x2:
                                    intended[x2] = o['p'] + 500
                        fh.write(recs)
                    else:
                        lim.write(path_of(o['p']), '%d\n' % o['x'] if o['x'] else '', method=method)
                else:
                    (fh or lim).close()
        except WriteHang:                            # the call kept re-trying open(): it does not end
            raised = 'Hang'
        except Exception as ex:                      # an exception of the code under test is an observation
            raised = type(ex).__name__
        if via_fq and o['op'] == 'w':
            if raised != 'none' and not any(q['raised'] != 'none' for q in ops[n_before:]):
                observe('w', o['p'], o['x'], raised)  # raised outside the limiter (nothing was attempted for this record)
        else:
            observe(o['op'], o['p'], o['x'], raised)
    end_raised = 'none'
    try:
        with contextlib.redirect_stdout(sink):
            (fh or lim).close()
    except Exception as ex:
        end_raised = type(ex).__name__
    fds_end = len(inj.live)
    inj.force_close_all()
    final = []
    for fn in sorted(os.listdir(workdir)):
        path = os.path.join(workdir, fn)
        recs, ok = read_members(path, 1 if via_fq else method)
        final.append({'p': path_id(path), 'recs': recs, 'ok': ok})
    shutil.rmtree(workdir)
    return {'ops': ops, 'final': final, 'fds_end': fds_end, 'end_raised': end_raised}


def random_scenario(rng, big):
    npaths = rng.choice([1, 2, 3, 5, 8, 20, 50, 120, 200]) if big else rng.randint(1, 6)
    K = rng.choice([1, 2, 3, 4, 8, 16, 64, 1000])
    mh = rng.choice([0, 1, 2, 3, 5, 10, 32, 500])
    pe = rng.choice([1, 2, 3, 7, 50, 10000])
    bad = rng.choice([0, 0, 0, rng.randint(1, npaths)])
    n = rng.randint(1, 4 * npaths + 5) if big else rng.randint(1, 12)
    hot = [rng.randint(1, npaths) for _ in range(3)]
    ops, tfs = [], set()
    for i in range(n):
        if rng.random() < 0.04:
            ops.append({'op': 'c', 'p': 0, 'x': 0})
        else:
            p = rng.choice(hot) if rng.random() < 0.3 else rng.randint(1, npaths)
            ops.append({'op': 'w', 'p': p, 'x': 0 if rng.random() < 0.06 else i + 1})
    for _ in range(rng.choice([0, 0, 1, 1, 2, 3])):
        tfs.add(rng.randint(1, n + 2))
    stale = sorted(p for p in range(1, npaths + 1) if rng.random() < 0.4) if rng.random() < 0.7 else []
    return {'K': K, 'mh': mh, 'pe': pe, 'bad': bad, 'tfs': sorted(tfs), 'ops': ops, 'stale': stale, 'paired': rng.random() < 0.5}


def split_case(rng, workdir, k):
    """One multi-pass run of bamSplitByTag's command line over a synthetic BAM."""
    if os.path.isdir(workdir):
        shutil.rmtree(workdir)
    os.makedirs(workdir)
    nvals = rng.randint(1, 6)
    maxh = rng.choice([1, 1, 2, 2, 3, nvals, nvals + 1])
    deep = rng.random() < 0.3        # more than 2 * max_handles distinct values, all present: at least 3 passes
    if deep:
        maxh = rng.choice([1, 1, 2])
        nvals = 2 * maxh + rng.randint(1, 2)
    n = rng.choice([0, 1, 1, 2]) if rng.random() < 0.15 else rng.randint(1, 24)     # also the empty and the one-record input
    header = bamgen.make_header([('chrA', 10000)])
    vals = [rng.choice([0] + list(range(1, nvals + 1)) * 3) for _ in range(n)]     # 0 = record without the tag
    if deep:
        first = list(range(1, nvals + 1))
        rng.shuffle(first)
        vals = first + vals
    # distinct raw tag values may sanitise (get_valid_filename) to the same file name: fmap[v] = file of raw value v
    # (canonical numbering); the raw strings are built FROM this map: 'cell_<f>', 'cell <f>', 'cell_<f>!', ' cell_<f>'
    fmap, used = [], {}
    for v in range(1, nvals + 1):
        top = max(fmap) if fmap else 0
        f = top + 1 if (deep or not fmap or rng.random() < 0.6 or used.get(top, 0) >= 4) else rng.randint(1, top)
        if used.get(f, 0) >= 4:
            f = top + 1
        fmap.append(f)
        used[f] = used.get(f, 0) + 1
    forms = ['cell_%d', 'cell %d', 'cell_%d!', ' cell_%d']
    seen_f, rawname = {}, {}
    for v, f in enumerate(fmap, 1):
        rawname[v] = forms[seen_f.get(f, 0)] % f
        seen_f[f] = seen_f.get(f, 0) + 1
    # tag values that get_valid_filename reduces to the EMPTY string ('##', '+', '(!)', the empty Z tag) all belong to the
    # file '<prefix>.bam'; their records must not disappear.  File id of that file: nvals + 1.
    empty_forms = ['##', '+', '(!)', '']
    empty_file = nvals + 1
    if rng.random() < 0.35:
        for k, v in enumerate(rng.sample(range(1, nvals + 1), min(nvals, rng.choice([1, 1, 2])))):
            fmap[v - 1] = empty_file
            rawname[v] = empty_forms[(k + n) % len(empty_forms)] if k == 0 else empty_forms[(k + n + 1) % len(empty_forms)]
    int_tags = rng.random() < 0.25
    if int_tags:
        # integer tag values as written by the taggers (e.g. a cell index), starting at 0; no collisions: file <v-1>.bam
        fmap = list(range(1, nvals + 1))
        rawname = {v: v - 1 for v in fmap}
    unsorted_input = rng.random() < 0.2
    reads = []
    for i, v in enumerate(vals):
        # one case in five is an unsorted (legal) BAM: coordinates decrease, so building the .bai of the outputs fails inside
        # the tool (index_bam swallows that); the split itself must be unaffected
        reads.append(bamgen.make_read(header, 'r%d' % (i + 1), 'chrA', 10 * (len(vals) + 30 - i) if unsorted_input else 10 * i, 'ACGT',
                                      tags={'SM': rawname[v]} if v else {'XX': 1}))
    def out_name(f):
        if not int_tags and f == empty_file:
            return '.bam'
        return '%d.bam' % (f - 1) if int_tags else 'cell_%d.bam' % f
    inp = os.path.join(workdir, 'in.bam')
    bamgen.write_bam(inp, header, reads, sort=False, index=False)
    outdir = os.path.join(workdir, 'out') + '/'
    # a second run into the same output folder: a stale (here: garbage) file of an earlier run sits at the path of an
    # output file this run produces; it must be replaced
    present = sorted(set(fmap[v - 1] for v in vals if v))
    stale_file = 0
    if present and rng.random() < 0.3:
        stale_file = rng.choice(present)
        os.makedirs(outdir)
        with REAL_OPEN(os.path.join(outdir, out_name(stale_file)), 'wb') as g:
            g.write(b'stale bytes of an earlier run, not a BAM file')
    args = [inp, 'SM', '-o_folder', outdir, '-max_handles', str(maxh)]
    if k % 40 == 0:
        # unmodified command line in a child process (`-m`): its __main__ must be the module itself because the
        # indexing step pickles a module-level function for a multiprocessing pool
        import subprocess
        # watchdog: a tool that does not end is an observation ('Hang'), the files written so far are recorded
        try:
            cp = subprocess.run([sys.executable, '-m', 'singlecellmultiomics.bamProcessing.bamSplitByTag'] + args,
                                stdout=subprocess.PIPE, stderr=subprocess.PIPE, text=True, timeout=90)
            raised = 'none' if cp.returncode == 0 else 'exit%d' % cp.returncode
            passes = [cp.stdout.count('Iteration ')]
        except subprocess.TimeoutExpired as ex:
            raised = 'Hang'
            so = ex.stdout if isinstance(ex.stdout, str) else (ex.stdout or b'').decode(errors='replace')
            passes = [so.count('Iteration ')]
    else:
        # in-process: the module's `__main__` block is executed by runpy; the process pool that only builds the .bai
        # files is replaced by a serial stand-in (a pickled __main__.index_bam would not resolve in this process)
        import multiprocessing
        import runpy
        import signal
        saved_pool, saved_argv = multiprocessing.Pool, sys.argv
        # watchdog: every value needs at most one pass, so more than (#values + 3) passes - or 30 s - means the tool does
        # not end; the pass counter sits in the stdout sink ('Iteration <n>' is printed by the tool once per pass)
        sink = PassCounter(nvals + 3)
        old_handler = signal.signal(signal.SIGALRM, _alarm)
        signal.alarm(30)
        raised = 'none'
        try:
            multiprocessing.Pool = SerialPool
            sys.argv = ['bamSplitByTag.py'] + args
            sys.modules.pop('singlecellmultiomics.bamProcessing.bamSplitByTag', None)
            with contextlib.redirect_stdout(sink):
                runpy.run_module('singlecellmultiomics.bamProcessing.bamSplitByTag', run_name='__main__')
        except SplitHang:
            raised = 'Hang'
        except Exception as ex:
            raised = type(ex).__name__
        finally:
            signal.alarm(0)
            signal.signal(signal.SIGALRM, old_handler)
            multiprocessing.Pool, sys.argv = saved_pool, saved_argv
        passes = [sink.passes]
    out = []
    import pysam
    if os.path.isdir(outdir):
        for fn in sorted(os.listdir(outdir)):
            if not fn.endswith('.bam'):
                continue
            idx, ok = [], True
            try:
                with pysam.AlignmentFile(os.path.join(outdir, fn), check_sq=False) as f:
                    for r in f.fetch(until_eof=True):
                        idx.append(int(r.query_name[1:]))
            except Exception:
                ok = False
            v = fn[:-4]
            if v == '' and not int_tags:
                fid = empty_file
            elif int_tags:
                fid = int(v) + 1 if v.isdigit() else -1
            else:
                fid = int(v[5:]) if v.startswith('cell_') and v[5:].isdigit() else -1
            out.append({'v': fid, 'idx': idx, 'ok': ok})
    shutil.rmtree(workdir)
    return {'ev': 'split', 'max_handles': maxh, 'recs': vals, 'fmap': fmap, 'int_tags': int_tags, 'stale_file': stale_file, 'passes': passes[0], 'raised': raised, 'out': out}


def main():
    out, tier, seed = sys.argv[1], sys.argv[2], int(sys.argv[3])
    scn_file = sys.argv[4] if len(sys.argv) > 4 else None
    rng = random.Random(seed)
    import singlecellmultiomics.pyutils.handlelimiter as hl_mod
    import singlecellmultiomics.fastqProcessing.fastqHandle as fh_mod
    work = os.path.join(os.getcwd(), 'c19_work_%d' % os.getpid())
    tid = 0
    with REAL_OPEN(out, 'w') as f:
        def emit(e):
            f.write(json.dumps(e, separators=(',', ':')) + '\n')

        def header(scn, src, method):
            return {'ev': 'run', 'tid': tid, 'src': src, 'method': method, 'K': scn['K'], 'mh': scn['mh'], 'pe': scn['pe'],
                    'bad': scn['bad'], 'tfs': sorted(scn['tfs']), 'stale': sorted(scn.get('stale', [])),
                    'paired': bool(scn.get('paired')) and src.startswith('fq'),
                    'spelling': (scn['K'] + scn['pe'] + len(scn['ops'])) % 3}

        # 1. TLC-generated behaviours of the design (spec -> code)
        scns = json.load(REAL_OPEN(scn_file)) if scn_file else []
        for i, s in enumerate(scns):
            src = 'fq' if i % 5 == 4 else 'gen'
            method = 1 if (src == 'fq' or i % 4 != 3) else 0
            tid += 1
            e = header(s, src, method)
            e.update(run_scenario(hl_mod, fh_mod, work, s, src, method, det_clock=True))
            e['exp'] = {'has': True, 'ops': [{'raised': o['raised'], 'open': sorted(o['open'])} for o in s['ops']],
                        'disk': s['disk']}
            emit(e)
        # 2. random runs over 1..200 target files (P-level only)
        nrand = 300 if tier == 'quick' else 6000
        for i in range(nrand):
            big = i % 3 == 0
            s = random_scenario(rng, big)
            src = 'fqrand' if i % 4 == 3 else 'rand'
            method = 1 if (src == 'fqrand' or i % 5 != 0) else 0
            tid += 1
            e = header(s, src, method)
            e.update(run_scenario(hl_mod, fh_mod, work, s, src, method, det_clock=(i % 2 == 0)))
            e['exp'] = {'has': False, 'ops': [], 'disk': []}
            emit(e)
        # 3. bamSplitByTag over its passes
        for k in range(40 if tier == 'quick' else 400):
            tid += 1
            e = split_case(rng, work, k)
            e['tid'] = tid
            emit(e)


if __name__ == '__main__':
    main()
