"""C11 driver: random synthetic tagged BAMs x option sets through the real create_count_table(args, return_df=True).
usage: drive_counttable.py <out.ndjson> <tier> <seed>
       drive_counttable.py <out.ndjson> replay <replay.json>
Only generates, drives and records; TLC (Trace_CountTable) judges.

Trace: one {"ev":"bam", "reads":[...]} line (the generator's abstract description; the BAM bytes are derived from it)
followed by one {"ev":"table", "opts":{...}, "raised":"", "table":[{"sample","key":[str..],"w":24*value}]} line per option set.
"""
import contextlib
import io
import itertools
import json
import os
import random
import re
import sys
import tempfile
from types import SimpleNamespace

import bamgen

DEN = 24
# contig-name sets; in the second one every name is a substring / prefix of another (chr1 < chr11, chr1 < chr1_alt):
# name comparisons done with `in`, startswith or endswith instead of equality show up there
CONTIG_SETS = [[('chrA', 240), ('chrB', 120)],
               [('chr1', 240), ('chr11', 120), ('chr1_alt', 90)],
               [('chr11', 200), ('chr1', 150)],
               [('chrX', 150), ('chrY', 150)]]          # two contigs of equal length
SWITCHES = ['r1only', 'r2only', 'filterMP', 'proper', 'no_indels', 'no_softclips', 'filterXA', 'dedup', 'nodivide', 'divmm',
            'minMQ', 'max_edits', 'blacklist']
CIGARS = ['10M', '10M', '10M', '6M', '4M1I5M', '5M2D5M', '2S8M', '8M2S', '3S3M1I3M', '2S4M3D4M', '30M', '60M',
          '2H8M', '8M3H', '5M10N5M', '4=1X5=', '1M']      # hard clips, reference skip, =/X, one base
GENES = ['gA', 'gB', 'gC']
KEYMODES = ['joined:chrom', 'joined:GN', 'joined:GN,DA', 'joined:reference_name,DA', 'joined:DA,DS', 'single:GN',
            'single:GN,DA', 'single:DA,chrom', 'bin', 'bin:GN', 'bin:DS', 'binslide', 'byvalue:GN', 'byvalue:DA,chrom',
            'split:GN', 'split:GN,DA', 'splitsingle:GN', 'splitsingle:GN,DA', 'bed:GN', 'bed:GN,DA', 'bedsingle:GN',
            'bedsingle:GN,DA', 'bedbyvalue:GN', 'bedsplit:GN', 'bedsplitsingle:GN', 'splitbin:DS', 'splitbin:GN',
            'joined:BI,chrom', 'joined:bi', 'single:BI,DA',            # BI <-> bi alias lookup of metaFromRead
            # combinations the tool documents as not implemented / that this check does not judge: executed, recorded, NOTEd
            'splitbyvalue:GN', 'singlebin:GN', 'singlebyvalue:GN,XV']


def cigar_ops(c):
    return re.findall(r'(\d+)([MIDNSHP=X])', c)


def cigar_lengths(c):
    q = sum(int(n) for n, o in cigar_ops(c) if o in 'MIS=X')
    r = sum(int(n) for n, o in cigar_ops(c) if o in 'MDN=X')
    return q, r


# ------------------------------------------------------------------------------------------------
# abstract description of a BAM

def gen_scene(rng):
    """Contigs, blacklist intervals and BED regions of one BAM: reads are placed relative to their boundaries."""
    CONTIGS = rng.choice(CONTIG_SETS)
    bl = []
    for _ in range(rng.choice([1, 1, 2])):
        contig, ln = rng.choice(CONTIGS)
        s = rng.randrange(20, ln - 60)
        e = s + rng.choice([1, 5, 10, 20, 40])
        if rng.random() < 0.15:
            s, e = rng.choice([(0, 1), (0, 12), (ln - 1, ln), (ln - 15, ln)])      # touching coordinate 0 / the contig end
        bl.append({'contig': contig, 'start': s, 'end': e})
    bed = []
    for k in range(rng.choice([1, 2, 3, 4])):
        contig, ln = CONTIGS[k % len(CONTIGS)] if k < len(CONTIGS) and rng.random() < 0.7 else rng.choice(CONTIGS)
        s = rng.randrange(0, ln - 30)
        bed.append({'contig': contig, 'start': s, 'end': min(ln, s + rng.choice([10, 30, 80])), 'name': 'reg%d' % k})
    if rng.random() < 0.5 and bed:   # an overlapping / adjacent region
        b = bed[0]
        bed.append({'contig': b['contig'], 'start': rng.choice([b['end'], b['end'] - 5, b['start']]),
                    'end': min(dict(CONTIGS)[b['contig']], b['end'] + 25), 'name': 'regX'})
    bed = [b for b in bed if b['start'] < b['end']]
    return bl, bed, CONTIGS


def gen_tags(rng, d):
    d['sample'] = rng.choice(['cellA', 'cellAB', 'cellB'])      # one cell name is a prefix of another
    feats, nums = {}, {}
    if rng.random() < 0.9:
        feats['GN'] = rng.sample(GENES, rng.choice([1, 1, 2]))
        if rng.random() < 0.06:
            feats['GN'] = rng.choice([feats['GN'] + [''], [''] + feats['GN'], ['']])      # empty parts / empty tag value
    if rng.random() < 0.85:
        feats['DA'] = [rng.choice(['ref', 'alt'])]
    fq = {}
    u = rng.random()
    if u < 0.5:
        nums['XV'] = rng.choice([0, 1, 2, 5])
    elif u < 0.85:      # float typed value tag (XV:f:..), multiples of 1/4 incl. integer valued floats; recorded in quarters
        fq['XV'] = rng.choice([0, 1, 2, 3, 10, 16, 16, 4, 30])
    d['fq'] = fq
    if rng.random() < 0.7:
        nums[rng.choice(['bi', 'BI'])] = rng.choice([0, 1, 7])      # cell index under the old or the new tag name
    d['feats'], d['nums'] = feats, nums
    d['rr'] = rng.random() < 0.12
    d['nm'] = rng.choice([-1, -1, 0, 1, 2, 3, 4])
    d['nh'] = rng.choice([0, 0, 0, 1, 2, 3, 4])
    d['mp'] = rng.choice(['', '', 'unique', 'unique', 'multi'])
    if rng.random() < 0.35:
        d['hasxa'] = True
        d['xa'] = [rng.choice(['alt', 'nonalt']) for _ in range(rng.choice([0, 1, 1, 2, 3]))]
    else:
        d['hasxa'], d['xa'] = False, []
    d['qcfail'] = rng.random() < 0.1
    d['dup'] = rng.random() < 0.15


def place(rng, d, anchors, CONTIGS, contig=None):
    """Mapped record: CIGAR, position relative to an anchor (blacklist / BED / bin boundary)."""
    cname, ln = contig if contig else rng.choice(CONTIGS)
    cigar = rng.choice(CIGARS)
    q, rl = cigar_lengths(cigar)
    cand = [a for c, a in anchors if c == cname]
    if cand and rng.random() < 0.75:
        a = rng.choice(cand)
        start = a + rng.choice([-rl - 1, -rl, -rl + 1, -1, 0, 1, -rl // 2, -5])
    else:
        start = rng.randrange(0, ln)
    start = max(0, min(start, ln - rl))
    d.update(contig=cname, start=start, end=start + rl, mapped=True, cigar=cigar, qlen=q,
             ops=sorted(set(o for _, o in cigar_ops(cigar))), mapq=rng.choice([0, 19, 20, 21, 60, 60]))
    # the site tag: on bin multiples, at the contig end, at the read start
    if rng.random() < 0.9:
        d['nums']['DS'] = rng.choice([start, start + rl - 1, 10 * (start // 10), 25 * (start // 25), ln - 1, ln, 0,
                                      rng.randrange(0, ln)])


def unmapped_rec(d, contig='', start=-1):
    d.update(contig=contig, start=start, end=start + 1 if contig else 0, mapped=False, cigar='', qlen=10, ops=[], mapq=0)


def gen_bam(rng, scene):
    bl, bed, CONTIGS = scene
    anchors = [(b['contig'], b[k]) for b in bl + bl + bl + bed for k in ('start', 'end')]
    anchors += [(c, m) for c, ln in CONTIGS for m in (0, 50, 100, ln)]
    reads = []
    n = rng.choice([0, 1, 1] + [rng.randint(3, 14)] * 27)      # now and then an empty BAM / a single template
    for t in range(n):
        kind = rng.choices(['single', 'pair', 'pair_mate_unmapped', 'unplaced', 'pair_both_unmapped'], [4, 5, 2, 1, 0.5])[0]
        name = 'q%d' % t
        base = {'name': name, 'paired': kind.startswith('pair'), 'mate': 0, 'mate_unmapped': False, 'proper': False,
                'mcontig': '', 'mpos': -1}
        if kind == 'single':
            d = dict(base)
            gen_tags(rng, d)
            place(rng, d, anchors, CONTIGS)
            if rng.random() < 0.05:
                d['mate'] = rng.choice([1, 2, 3])      # mate flag(s) on an unpaired record: read 1, read 2, both (legal SAM)
            reads.append(d)
        elif kind == 'unplaced':
            d = dict(base)
            gen_tags(rng, d)
            unmapped_rec(d)
            reads.append(d)
        else:
            d1, d2 = dict(base, mate=1), dict(base, mate=2)
            gen_tags(rng, d1)
            gen_tags(rng, d2)
            if rng.random() < 0.7:      # mates share sample / features (as written by the tagger)
                for k in ('sample', 'feats', 'rr', 'dup', 'qcfail'):
                    d2[k] = json.loads(json.dumps(d1[k]))
            if kind == 'pair_both_unmapped':
                unmapped_rec(d1)
                unmapped_rec(d2)
                d1['mate_unmapped'] = d2['mate_unmapped'] = True
            else:
                contig = rng.choice(CONTIGS)
                place(rng, d1, anchors, CONTIGS, contig)
                if kind == 'pair':
                    place(rng, d2, anchors, CONTIGS, contig if rng.random() < 0.85 else None)
                    proper = rng.random() < 0.7
                    d1['proper'] = d2['proper'] = proper
                else:
                    unmapped_rec(d2, d1['contig'], d1['start'])     # placed at the mate's position
                    d1['mate_unmapped'] = True
                    if rng.random() < 0.5:
                        d1['mate'], d2['mate'] = 2, 1               # the unmapped one is read 1
                d1['mcontig'], d1['mpos'] = d2['contig'], d2['start']
                d2['mcontig'], d2['mpos'] = d1['contig'], d1['start']
            reads += [d1, d2]
    return reads


def to_segment(header, d):
    tags = {'SM': d['sample']}
    if d['rr']:
        tags['RR'] = 'rejected'
    if d['nm'] >= 0:
        tags['NM'] = d['nm']
    if d['nh'] > 0:
        tags['NH'] = d['nh']
    if d['mp']:
        tags['mp'] = d['mp']
    if d['hasxa']:   # bwa format: chr,pos,CIGAR,NM; per alternative hit (each one terminated by ';')
        tags['XA'] = ''.join('%s,+%d,10M,1;' % (('chrB', 'chr11', 'chr1_alternative')[i % 3] if x == 'nonalt'
                                                else ('chrUn_KI270_alt', 'chr1_alt')[i % 2], 100 + 7 * i)
                             for i, x in enumerate(d['xa']))
    for k, v in d['feats'].items():
        tags[k] = ','.join(v)
    for k, v in d['nums'].items():
        tags[k] = int(v)
    for k, v in d.get('fq', {}).items():
        tags[k] = (v / 4.0, 'f')
    return bamgen.make_read(
        header, d['name'], d['contig'] or None, d['start'], ('ACGTTGCA' * 10)[:d['qlen']],
        cigar=d['cigar'] or None, read1=d['mate'] in (1, 3), read2=d['mate'] in (2, 3), paired=d['paired'], proper=d['proper'],
        mate_contig=d['mcontig'] or None, mate_pos=d['mpos'] if d['mcontig'] else None, mate_unmapped=d['mate_unmapped'],
        unmapped=not d['mapped'], mapq=d['mapq'], dup=d['dup'], qcfail=d['qcfail'], tags=tags)


# ------------------------------------------------------------------------------------------------
# option sets

def base_opts(scene):
    return {'r1only': False, 'r2only': False, 'filterMP': False, 'proper': False, 'no_indels': False, 'no_softclips': False,
            'filterXA': False, 'dedup': False, 'nodivide': False, 'divmm': False, 'split': False, 'keep': False, 'bulk': False,
            'minMQ': 0, 'max_edits': -1, 'blacklist': [], 'byvalue': '', 'mode': 'joined', 'tags': ['chrom'],
            'bin': 0, 'bintag': 'DS', 'sliding': 0, 'bed': [], 'usebed': False, 'contig': '', 'delim': ',',
            'reflen': dict(scene[2]), 'nonames': False}


def switch_on(rng, o, sw, scene):
    if sw == 'minMQ':
        o['minMQ'] = rng.choice([1, 20, 20, 21, 60])
    elif sw == 'max_edits':
        o['max_edits'] = rng.choice([0, 2, 2, 3])
    elif sw == 'blacklist':
        o['blacklist'] = scene[0]
    else:
        o[sw] = True


def set_keymode(rng, o, km, scene):
    kind, _, tags = km.partition(':')
    tags = tags.split(',') if tags else []
    if kind in ('joined', 'single'):
        o['mode'], o['tags'] = kind, tags
    elif kind in ('bin', 'binslide', 'splitbin'):
        o['mode'], o['tags'] = 'joined', tags or ['chrom']
        o['bin'] = rng.choice([10, 25, 50])
        o['keep'] = rng.random() < 0.4
        if kind == 'binslide':
            o['sliding'] = rng.choice([5, o['bin'] // 2 or 1])
        if kind == 'splitbin':
            o['split'] = True
    elif kind == 'byvalue':
        o['mode'], o['tags'], o['byvalue'] = 'joined', tags, 'XV'
    elif kind == 'splitbyvalue':
        o['mode'], o['tags'], o['split'], o['byvalue'] = 'joined', tags, True, 'XV'
    elif kind == 'singlebin':
        o['mode'], o['tags'], o['bin'] = 'single', tags, 10
    elif kind == 'singlebyvalue':
        o['mode'], o['tags'], o['byvalue'] = 'single', tags, 'XV'
    elif kind in ('split', 'splitsingle'):
        o['mode'], o['tags'], o['split'] = ('single' if kind == 'splitsingle' else 'joined'), tags, True
    elif kind.startswith('bed'):
        o['mode'], o['tags'], o['bed'], o['usebed'] = ('single' if kind.endswith('single') else 'joined'), tags, scene[1], True
        if 'split' in kind:
            o['split'] = True
        if 'byvalue' in kind:
            o['byvalue'] = 'XV'
    else:
        raise ValueError(km)
    if rng.random() < (0.5 if o['usebed'] else 0.25):
        o['contig'] = rng.choice(scene[2])[0]
    o['nonames'] = rng.random() < 0.2


def gen_optsets(rng, scene, n, pair_cycle, km_cycle):
    out = []
    for k in range(n):
        o = base_opts(scene)
        r = rng.random()
        if k == 0:
            on = []                                    # all filters off
        elif r < 0.45:
            on = list(next(pair_cycle))                # pairwise-complete over the switches across the run
        elif r < 0.6:
            on = [rng.choice(SWITCHES)]
        else:
            on = [s for s in SWITCHES if rng.random() < 0.3]
        if k > 0 and 'blacklist' not in on and rng.random() < 0.2:
            on.append('blacklist')
        for sw in on:
            switch_on(rng, o, sw, scene)
        set_keymode(rng, o, next(km_cycle), scene)
        out.append(o)
    return out


def namespace(o, bam, bedpath, blpath):
    j = ','.join(o['tags'])
    return SimpleNamespace(
        alignmentfiles=bam if isinstance(bam, list) else [bam], head=None, o=None, bin=o['bin'] or None, binTag=o['bintag'], sliding=o['sliding'] or None,
        bedfile=bedpath if o['usebed'] else None, showtags=False, featureTags=j if o['mode'] == 'single' else None,
        joinedFeatureTags=j if o['mode'] == 'joined' else None, byValue=o['byvalue'] or None, sampleTags='SM',
        proper_pairs_only=o['proper'], no_indels=o['no_indels'], max_base_edits=None if o['max_edits'] < 0 else o['max_edits'],
        no_softclips=o['no_softclips'], minMQ=o['minMQ'], filterXA=o['filterXA'], dedup=o['dedup'],
        divideMultimapping=o['divmm'], doNotDivideFragments=o['nodivide'], contig=o['contig'] or None,
        blacklist=blpath if o['blacklist'] else None, r1only=o['r1only'], r2only=o['r2only'], filterMP=o['filterMP'],
        splitFeatures=o['split'], feature_delimiter=o['delim'], featureDelimiter=o['delim'], noNames=o['nonames'],
        keepOverBounds=o['keep'], bulk=o['bulk'])


# ------------------------------------------------------------------------------------------------
# running the real code

def flatten(df):
    rows = []
    for col in df.columns:
        sample = col[0] if isinstance(col, tuple) else col
        for idx, v in df[col].items():
            if v != v:      # NaN: cell absent
                continue
            key = list(idx) if isinstance(idx, tuple) else [idx]
            w = float(v) * DEN
            if abs(w - round(w)) > 1e-6:
                raise AssertionError('weight %r is not a multiple of 1/%d' % (v, DEN))
            rows.append({'sample': str(sample), 'key': [str(x) for x in key], 'w': int(round(w))})
    return rows


def read_csv_table(path):
    """The CSV written by the tool with --noNames: header = one empty cell per index level + the column names."""
    import csv
    with open(path, newline='') as f:
        rows = list(csv.reader(f))
    if not rows or len(rows[0]) <= 1:
        return []
    n_idx = 0
    while n_idx < len(rows[0]) and rows[0][n_idx] == '':
        n_idx += 1
    cols, out = rows[0][n_idx:], []
    for r in rows[1:]:
        for c, v in zip(cols, r[n_idx:]):
            if v == '':
                continue
            w = float(v) * DEN
            if abs(w - round(w)) > 1e-6:
                raise AssertionError('weight %r is not a multiple of 1/%d' % (v, DEN))
            out.append({'sample': c, 'key': r[:n_idx], 'w': int(round(w))})
    return out


def run_one(ct, o, bam, tmp, reuse=False, via='df'):
    """One (or, with reuse, two consecutive) call(s) of create_count_table with the SAME namespace object.
    via='pickle': the export path (-o x.pickle, read back with pandas) instead of return_df=True."""
    bedpath = os.path.join(tmp, 'regions.bed')
    blpath = os.path.join(tmp, 'blacklist.bed')
    with open(bedpath, 'w') as f:
        for b in o['bed']:
            f.write('%s\t%d\t%d\t%s\n' % (b['contig'], b['start'], b['end'], b['name']))
    with open(blpath, 'w') as f:
        for b in o['blacklist']:
            f.write('%s\t%d\t%d\n' % (b['contig'], b['start'], b['end']))
    args = namespace(o, bam, bedpath, blpath)
    out = []
    for _ in range(2 if reuse else 1):
        raised, rows, df = '', [], None
        with contextlib.redirect_stdout(io.StringIO()):
            try:
                if via == 'csv':
                    args.o = os.path.join(tmp, 'table.csv')
                    ct.create_count_table(args, return_df=False)
                    rows = read_csv_table(args.o)
                    os.remove(args.o)
                elif via == 'pickle':
                    import pandas as pd
                    args.o = os.path.join(tmp, 'table.pickle')
                    ct.create_count_table(args, return_df=False)
                    df = pd.read_pickle(args.o)
                    os.remove(args.o)
                else:
                    df = ct.create_count_table(args, return_df=True)
            except Exception as ex:          # a crash of the code under test is an observation
                raised = type(ex).__name__
        if df is not None:
            rows = flatten(df)
        out.append((raised, rows))
    return out


def write_bam(path, reads, contigs, split=None):
    """One BAM, or (split = file index per read) two BAMs with the same header given to the tool as a list."""
    header = bamgen.make_header([tuple(c) for c in contigs])
    if not split:
        bamgen.write_bam(path, header, [to_segment(header, d) for d in reads])
        return path
    paths = []
    for fi in (0, 1):
        p = path.replace('.bam', '_%d.bam' % fi)
        bamgen.write_bam(p, header, [to_segment(header, d) for d, k in zip(reads, split) if k == fi])
        paths.append(p)
    return paths


def main():
    out, tier = sys.argv[1], sys.argv[2]
    import singlecellmultiomics.bamProcessing.bamToCountTable as ct
    tmp = tempfile.mkdtemp(prefix='c11_', dir=os.getcwd())
    bam = os.path.join(tmp, 'x.bam')
    tid = 0
    with open(out, 'w') as f:
        def emit(e):
            f.write(json.dumps(e, separators=(',', ':')) + '\n')
        if tier == 'replay':
            with open(sys.argv[3]) as rf:
                case = json.load(rf)['case']['event']
            bams = write_bam(bam, case['bam']['reads'], case['bam'].get('contigs', CONTIG_SETS[0]), case['bam'].get('split'))
            emit({k: v for k, v in case['bam'].items()})
            res = run_one(ct, case['opts'], bams, tmp, reuse=case.get('call', 1) == 2, via=case.get('via', 'df'))
            for k, (raised, rows) in enumerate(res):
                emit({'ev': 'table', 'tid': case['tid'] - len(res) + 1 + k, 'opts': case['opts'], 'raised': raised, 'table': rows,
                      'via': case.get('via', 'df'), 'call': k + 1})
        else:
            seed = int(sys.argv[3])
            rng = random.Random(seed)
            nbam, nopt = (150, 8) if tier == 'quick' else (1500, 20)
            pairs = list(itertools.combinations(SWITCHES, 2))
            rng.shuffle(pairs)
            pair_cycle = itertools.cycle(pairs)
            kms = list(KEYMODES)
            rng.shuffle(kms)
            km_cycle = itertools.cycle(kms)
            for b in range(nbam):
                scene = gen_scene(rng)
                reads = gen_bam(rng, scene)
                split = [rng.randrange(2) for _ in reads] if rng.random() < 0.2 else None    # two alignment files in one call
                bams = write_bam(bam, reads, scene[2], split)
                tid += 1
                e = {'ev': 'bam', 'tid': tid, 'seed': seed, 'bam_index': b, 'contigs': [list(c) for c in scene[2]], 'reads': reads}
                if split:
                    e['split'] = split
                emit(e)
                for o in gen_optsets(rng, scene, nopt, pair_cycle, km_cycle):
                    u = rng.random()
                    via = 'pickle' if u < 0.07 else 'csv' if u < 0.14 else 'df'
                    if via != 'df':
                        o['bulk'] = rng.random() < 0.4          # --bulk only exists on the export path
                    if via == 'csv':
                        o['nonames'] = True                     # header without index names (see read_csv_table)
                    res = run_one(ct, o, bams, tmp, reuse=0.14 <= u < 0.28, via=via)
                    for k, (raised, rows) in enumerate(res):
                        tid += 1
                        emit({'ev': 'table', 'tid': tid, 'opts': o, 'raised': raised, 'table': rows, 'via': via, 'call': k + 1})
    for fn in os.listdir(tmp):
        os.remove(os.path.join(tmp, fn))
    os.rmdir(tmp)


if __name__ == '__main__':
    main()
