"""C12 driver: synthetic tagged BAMs through the real job-parallel binned counters of bamBinCounts.
usage: drive_bincounts.py <out.ndjson> <tier> <seed> [scenarios.json]
       drive_bincounts.py <out.ndjson> replay <replay.json>
Only generates, drives and records; TLC (Trace_BinCounts) judges.

 * obtain_counts(generate_commands(bam, bin_size, bins_per_job, max_fragment_size, min_mq, key_tags, kwargs), threads=T)
   for many bins_per_job on the same BAM (one "group"), with
     pool = "fake": multiprocessing.Pool replaced (in this driver process only) by an in-process pool whose
                    imap_unordered returns the job results in a seeded random completion order  -> every worker schedule
                    is reachable deterministically and cheaply;
     pool = "real": the real multiprocessing.Pool with 1, 2 or 4 workers.
 * get_binned_counts(regions=None) and, as an extension (candidate D15), with adjacent user regions.
 * TLC-generated scenarios (spec -> code): every initial state of the bounded generator model is built as a BAM and run.
"""
import contextlib
import io
import json
import multiprocessing
import os
import random
import sys
import tempfile

import bamgen

REAL_POOL = multiprocessing.Pool


class FakePool:
    """In-process stand-in for multiprocessing.Pool: same results, completion order chosen by a seeded RNG."""
    order_rng = random.Random(0)

    def __init__(self, *a, **k):
        pass

    def __enter__(self):
        return self

    def __exit__(self, *a):
        return False

    mode = 'shuffle'      # 'shuffle' (seeded), 'genome' (submission order) or 'reversed'

    def imap_unordered(self, fn, it, chunksize=1):
        res = [fn(x) for x in it]
        if FakePool.mode == 'shuffle':
            FakePool.order_rng.shuffle(res)
        elif FakePool.mode == 'reversed':
            res.reverse()
        return iter(res)

    def imap(self, fn, it, chunksize=1):
        return (fn(x) for x in it)


# ------------------------------------------------------------------------------------------------
# abstract BAM description

def mk_rec(name, contig, site, rstart, rlen, sample='s1', r1=True, dup=False, qcfail=False, mapq=60, mp='', key='k1',
           proper=True, file=1, clip=0, paired=True, unmapped=False, extra='', ):
    # sample '': no SM tag; extra '' / 'supplementary' / 'secondary': a further read-1 record with the query name of another
    return {'file': file, 'clip': clip, 'paired': paired, 'unmapped': unmapped, 'extra': bool(extra), 'extra_kind': extra,
            'name': name, 'contig': contig, 'site': int(site), 'rstart': int(rstart), 'rend': int(rstart + rlen),
            'sample': sample, 'r1': r1, 'dup': dup, 'qcfail': qcfail, 'mapq': mapq, 'mp': mp, 'key': key, 'proper': proper}


def gen_bam(rng, in_pre=True):
    contigs = ['chr1', 'chr11', 'chr1_alt'][:rng.choice([1, 2, 3])]      # every name is a prefix of another one
    lens = [rng.choice([97, 100, 120, 250]), rng.choice([37, 50, 64, 97, 100]), rng.choice([5, 9, 12])][:len(contigs)]
    binsz = rng.choice([5, 7, 10, 25, 49])      # 49: 1.0/49 rounds down, 49 * (1.0/49) < 1
    mfs = rng.choice([0, 3, 10, 30])
    minmq = rng.choice([0, 20, 50])
    recs = []
    # several libraries (BAM files) given to generate_commands as a list: different cells, the same bins / job boundaries;
    # "shared": the same cell occurs in two libraries (outside the statement, recorded as an observation)
    nfiles = rng.choice([1, 1, 1, 2, 2, 3])
    shared = nfiles > 1 and rng.random() < 0.15
    # BAM lists with differing headers: the 2nd library lacks the last contig and / or has a contig of its own
    with_extras = rng.random() < 0.35      # BAMs holding further read-1 records of a query name
    allowed = {fi: list(range(len(contigs))) for fi in range(1, nfiles + 1)}
    hetero = False
    if nfiles > 1 and rng.random() < 0.4:
        hetero = True
        how = rng.choice(['missing', 'extra', 'both']) if len(contigs) > 1 else 'extra'
        if how in ('missing', 'both'):
            allowed[2] = allowed[2][:-1]
        if how in ('extra', 'both'):
            contigs.append('chr2')
            lens.append(rng.choice([30, 64]))
            allowed[2] = allowed[2] + [len(contigs) - 1]
            if nfiles > 2 and rng.random() < 0.5:
                allowed[3] = allowed[3] + [len(contigs) - 1]
    for t in range(rng.choice([0, 1] + [rng.randint(4, 22)] * 18)):      # now and then an empty / one-record BAM
        fi = rng.randint(1, nfiles)
        ci = rng.choice(allowed[fi])
        ln = lens[ci]
        rlen = min(rng.choice([1, 4, 8, 15]), ln)
        w = binsz * rng.choice([1, 1, 2, 3, 4, 7])                   # a possible job width
        site = rng.choice([0, ln - 1, w * rng.randint(0, ln // w), w * rng.randint(0, ln // w) - 1,
                           binsz * rng.randint(0, ln // binsz), rng.randrange(ln)])
        site = max(0, min(ln - 1, site))
        # alignment relative to the site: at it, the full max fragment size before / after it ("site far from the read start")
        off = rng.choice([0, 0, -rlen + 1, mfs, -(rlen - 1) - mfs, rng.randint(-(rlen - 1) - mfs, mfs)])
        if not in_pre and rng.random() < 0.4:
            off = rng.choice([mfs + 1, mfs + 9, -(rlen - 1) - mfs - 1, -(rlen - 1) - mfs - 12])
        rstart = site + off
        rstart = max(0, min(ln - rlen, rstart))
        if in_pre and not (rstart - mfs <= site <= rstart + rlen - 1 + mfs):
            rstart = max(0, min(ln - rlen, site))
        if not in_pre and rng.random() < 0.1:
            site = ln + rng.choice([0, 1, binsz])                     # site at / beyond the contig end
        kind = rng.choices(['good', 'dup', 'qcfail', 'lowmq', 'mp_multi', 'mp_unique'], [8, 2, 1, 2, 1, 1])[0]
        mapq = rng.choice([60, 60, 60, 255, 254])                     # 255 = "mapping quality not available" is a legal MAPQ
        if kind == 'lowmq':
            mapq = rng.choice([0, max(0, minmq - 1)])
        elif rng.random() < 0.3:
            mapq = minmq                                              # exactly the threshold
        cell = rng.choice(['cellA', 'cellAB', 'cellB'])
        if nfiles > 1 and not (shared and cell == 'cellA'):
            cell = 'lib%d_%s' % (fi, cell)
        if fi == 1 and rng.random() < 0.08:
            cell = ''                                                 # no SM tag: belongs to no cell
        r = mk_rec('m%d' % t, contigs[ci], site, rstart, rlen, sample=cell, file=fi,
                   dup=kind == 'dup', qcfail=kind == 'qcfail', mapq=mapq,
                   mp={'mp_multi': 'multi', 'mp_unique': 'unique'}.get(kind, ''), key=rng.choice(['ref', 'alt', 'alt', 'None']),
                   clip=rng.choice([0, 0, 0, 2, 5]),
                   proper=rng.random() < 0.8)
        if rng.random() < 0.25 and site + 1 < ln and kind == 'good':      # a second molecule of the same cell next to it
            r2 = dict(r, name='m%dn' % t, site=site + 1)
            r2['rstart'] = max(0, min(ln - rlen, site + 1))
            r2['rend'] = r2['rstart'] + rlen
            recs.append(r2)
        if with_extras and kind == 'good' and rng.random() < 0.25:      # supplementary / secondary read-1 record with the same query name
            w2 = binsz * rng.choice([1, 2, 3])
            s2 = rng.choice([site, min(ln - 1, site + 1), max(0, min(ln - 1, w2 * rng.randint(0, ln // w2))), rng.randrange(ln)])
            r3 = dict(r, site=s2, extra=True, extra_kind=rng.choice(['supplementary', 'secondary']), clip=0)
            r3['rstart'] = max(0, min(ln - rlen, s2))
            r3['rend'] = r3['rstart'] + rlen
            recs.append(r3)
        if rng.random() < 0.08:       # no DS tag: the site is the start of the (forward) alignment
            r.update(nods=True, site=r['rstart'])
        recs.append(r)
        if rng.random() < 0.6:                                        # the mate: never counted
            m = dict(r, r1=False, site=rng.randrange(ln))
            mln = ln
            if len(allowed[fi]) > 1 and rng.random() < 0.15:          # mate aligned to another contig
                mi = rng.choice([k for k in allowed[fi] if k != ci])
                m['contig'], mln = contigs[mi], lens[mi]
                m['site'] = rng.randrange(mln)
                if rng.random() < 0.8:                                # aligners never flag such a pair as proper
                    r['proper'] = m['proper'] = False
            ml = min(rlen, mln)
            m['rstart'] = max(0, min(mln - ml, r['rstart'] + rng.randint(0, 20)))
            m['rend'] = m['rstart'] + ml
            recs.append(m)
    # records that pass every other filter but are not read-1 records, or not mapped: never to be counted
    for t in range(rng.choice([0, 1, 2, 3])):
        fi = rng.randint(1, nfiles)
        ci = rng.choice(allowed[fi])
        ln = lens[ci]
        rlen = min(rng.choice([1, 4, 8]), ln)
        site = rng.choice([0, ln - 1, binsz * rng.randint(0, (ln - 1) // binsz), rng.randrange(ln)])
        rstart = max(0, min(ln - rlen, site))
        cell = 'cellB' if nfiles == 1 else 'lib%d_cellB' % fi
        kind = rng.choice(['unpaired', 'unpaired', 'read2_only', 'unmapped_read2'] + (['unmapped_read1'] if minmq > 0 else []))
        r = mk_rec('x%d' % t, contigs[ci], site, rstart, rlen, sample=cell, r1=False, mapq=60, key='ref', file=fi, proper=False)
        if kind == 'unpaired':
            r['paired'] = False
        elif kind.startswith('unmapped'):      # placed at its mate's position, no CIGAR, MAPQ 0
            r.update(unmapped=True, rend=r['rstart'] + 1, mapq=0, r1=kind == 'unmapped_read1', clip=0)
        recs.append(r)
    bam = {'contigs': contigs, 'lens': lens, 'nfiles': nfiles, 'hetero': hetero, 'recs': recs}
    if hetero:
        bam['file_contigs'] = {str(fi): [contigs[k] for k in allowed[fi]] for fi in allowed}
    return bam, binsz, mfs, minmq


def write_bams(tmp, bam):
    """One BAM per library (record field `file`); returns the path (one library) or the list of paths."""
    paths = []
    for fi in range(1, bam.get('nfiles', 1) + 1):
        p = os.path.join(tmp, 'x%d.bam' % fi)
        write_bam(p, bam, fi)
        paths.append(p)
    return paths[0] if len(paths) == 1 else paths


def write_bam(path, bam, fi=1):
    # file_contigs (optional): the contigs in the header of each BAM of the list (differing headers)
    keep = bam.get('file_contigs', {}).get(str(fi))
    header = bamgen.make_header([(c, l) for c, l in zip(bam['contigs'], bam['lens']) if keep is None or c in keep])
    segs = []
    names = {}
    mine = [r for r in bam['recs'] if r.get('file', 1) == fi]
    for r in mine:
        names.setdefault(r['name'], []).append(r)
    for r in mine:
        mates = ([x for x in names[r['name']] if x is not r and x['r1'] != r['r1']]
                 or [x for x in names[r['name']] if x is not r])
        tags = {}
        if r['sample']:
            tags['SM'] = r['sample']
        if not r.get('nods'):
            tags['DS'] = r['site']
        if r['key'] != 'None':        # key 'None': the record has no allele tag (the bin id then carries None)
            tags['DA'] = r['key']
        if r['mp']:
            tags['mp'] = r['mp']
        m = mates[0] if mates else None
        segs.append(bamgen.make_read(
            header, r['name'], r['contig'], r['rstart'], 'A' * (r['rend'] - r['rstart'] + r.get('clip', 0)),
            cigar=('%dS%dM' % (r['clip'], r['rend'] - r['rstart'])) if r.get('clip') else None, paired=r.get('paired', True),
            unmapped=r.get('unmapped', False), supplementary=r.get('extra_kind') == 'supplementary',
            secondary=r.get('extra_kind') == 'secondary', read1=r['r1'] and r.get('paired', True),
            read2=not r['r1'] and r.get('paired', True), proper=r['proper'], mate_contig=(m or r)['contig'], mate_pos=(m or r)['rstart'],
            mate_unmapped=False, mapq=r['mapq'], dup=r['dup'], qcfail=r['qcfail'], tags=tags))
    bamgen.write_bam(path, header, segs)


# ------------------------------------------------------------------------------------------------
# running the real code

def run_counts(bbc, path, cfg, pool, threads, order_seed):
    kwargs = {'empty': {}, 'ignore_mp': {'ignore_mp': True}}.get(cfg['kwargs'])
    extra = {} if kwargs is None else {'kwargs': kwargs}        # "none": the documented default of generate_commands
    raised, rows = '', []
    FakePool.order_rng = random.Random(order_seed)
    FakePool.mode = {-1: 'genome', -2: 'reversed'}.get(order_seed, 'shuffle')      # order_seed -1 / -2: fixed completion orders
    multiprocessing.Pool = FakePool if pool == 'fake' else REAL_POOL
    try:
        with contextlib.redirect_stdout(io.StringIO()):
            cmds = bbc.generate_commands(path, bin_size=cfg['bin'], bins_per_job=cfg['bpj'],
                                         min_mq=None if cfg.get('mq_none') else cfg['minmq'],
                                         max_fragment_size=cfg['mfs'], key_tags=['DA'] if cfg['usekey'] else None,
                                         dedup=cfg['dedup'], skip_contigs=cfg.get('skip') or None, **extra)
            counts = bbc.obtain_counts(cmds, reference=None, live_update=False, threads=threads,
                                       show_progress=bool(cfg.get('progress')),
                                       count_function=bbc.count_fragments_binned if cfg.get('progress') else None)
        for bin_id, sd in counts.items():
            bin_id = list(bin_id)
            key = str(bin_id[0]) if cfg['usekey'] else ''
            contig, s, e = bin_id[-3:]
            for sample, n in sd.items():
                rows.append({'bin': [key, str(contig), int(s), int(e)], 'sample': str(sample), 'n': int(n)})
    except Exception as ex:                                       # a crash of the code under test is an observation
        raised = type(ex).__name__
    finally:
        multiprocessing.Pool = REAL_POOL
    rows.sort(key=lambda r: json.dumps(r))
    return raised, rows


def default_filter(R1, R2):
    """A user supplied filter_function with the meaning of get_binned_counts' built-in default."""
    return not (R1 is None or R1.is_duplicate or R1.is_qcfail)


def run_gbc(bbc, path, binsz, regions, use_filter=False):
    raised, rows = '', []
    multiprocessing.Pool = FakePool
    try:
        with contextlib.redirect_stdout(io.StringIO()):
            df = bbc.get_binned_counts(path if isinstance(path, list) else [path], binsz, regions=regions, n_threads=1,
                                       filter_function=default_filter if use_filter else None)
        for idx, row in df.iterrows():
            for sample, v in row.items():
                if v == v and v != 0:
                    rows.append({'bin': [str(idx[0]), int(idx[1])], 'sample': str(sample), 'n': int(v)})
    except Exception as ex:
        raised = type(ex).__name__
    finally:
        multiprocessing.Pool = REAL_POOL
    rows.sort(key=lambda r: json.dumps(r))
    return raised, rows


def tiling(rng, bam):
    regs = []
    for c, ln in zip(bam['contigs'], bam['lens']):
        cuts = sorted(set([0, ln] + [rng.randrange(1, ln) for _ in range(rng.choice([1, 2]))]))
        regs += [(c, a, b) for a, b in zip(cuts, cuts[1:])]
    return regs


def main():
    out, tier = sys.argv[1], sys.argv[2]
    import singlecellmultiomics.bamProcessing.bamBinCounts as bbc
    tmp = tempfile.mkdtemp(prefix='c12_', dir=os.getcwd())
    state = {'tid': 0, 'group': 0, 'path': None}
    with open(out, 'w') as f:
        def emit(e):
            state['tid'] += 1
            e['tid'] = state['tid']
            f.write(json.dumps(e, separators=(',', ':')) + '\n')

        def run(cfg, pool, threads, order_seed):
            raised, rows = run_counts(bbc, state['path'], cfg, pool, threads, order_seed)
            emit({'ev': 'run', 'group': state['group'], 'cfg': cfg, 'pool': pool, 'threads': threads,
                  'order_seed': order_seed, 'raised': raised, 'counts': rows})

        if tier == 'replay':
            with open(sys.argv[3]) as rf:
                case = json.load(rf)['case']['event']
            path = state['path'] = write_bams(tmp, case['bam'])
            emit({'ev': 'bam', 'contigs': case['bam']['contigs'], 'lens': case['bam']['lens'],
                  'nfiles': case['bam'].get('nfiles', 1), 'recs': case['bam']['recs']})
            if case['ev'] == 'run':
                if case.get('first'):        # Inv_C12_Invariant compares with the first run of the group
                    state['group'] = case['group']
                    run(case['first']['cfg'], case['first']['pool'], case['first']['threads'], case['first']['order_seed'])
                state['group'] = case['group']
                run(case['cfg'], case['pool'], case['threads'], case['order_seed'])
            else:
                regions = ([tuple(r) if isinstance(r, list) else r for r in case['region_list']] or None)
                raised, rows = run_gbc(bbc, path, case['bin'], regions, use_filter=case.get('user_filter', False))
                emit({'ev': 'gbc', 'bin': case['bin'], 'regions': case['regions'], 'region_list': case['region_list'],
                      'raised': raised, 'counts': rows})
        else:
            seed = int(sys.argv[3])
            rng = random.Random(seed)
            # (1) spec -> code: scenarios generated by TLC from the bounded model
            scen = json.load(open(sys.argv[4])) if len(sys.argv) > 4 else []
            by_recs = {}
            for s in scen:
                by_recs.setdefault(json.dumps([s['recs'], s['contigs'], s['lens']], sort_keys=True), []).append(s)
            for k, group in by_recs.items():
                recs, contigs, lens = json.loads(k)
                bam = {'contigs': contigs, 'lens': lens, 'nfiles': max([r.get('file', 1) for r in recs] + [1]),
                       'hetero': False,
                       'recs': [dict(r, name='t%d' % i, proper=r.get('paired', True), file=r.get('file', 1), unmapped=False, clip=0,
                                     extra=False)
                                for i, r in enumerate(recs)]}
                path = state['path'] = write_bams(tmp, bam)
                emit(dict(bam, ev='bam', source='tlc_scenario'))
                groups = {}
                for s in group:
                    c = s['cfg']
                    groups.setdefault((c['bin'], c['mfs'], c['minmq'], c['usekey']), []).append(c)
                for gk, cfgs in sorted(groups.items()):
                    state['group'] += 1
                    for c in cfgs:
                        run(dict(c, skip=[]), 'fake', 1, rng.randrange(1 << 30))
            # (1b) directed job-boundary cases (independent of the seed): a molecule whose site lies EXACTLY on the boundary
            # between two jobs plus a second molecule of the same cell in the same bin (owned by the later job); every
            # boundary of several job widths, results completing in genome order and in reversed order, one and two BAMs
            for nfiles in (1, 2):
                binsz, ln = 5, 60
                recs = []
                for k, site in enumerate(range(5, 60, 5)):        # every multiple of the bin size is a job boundary for bpj=1
                    recs.append(mk_rec('d%da' % k, 'chr1', site, site, 3, sample='cellA', mapq=60, key='ref'))
                    recs.append(mk_rec('d%db' % k, 'chr1', site + 1, site + 1, 3, sample='cellA', mapq=60, key='ref'))
                    if k % 2:                                     # alignment starting before the boundary, site on it
                        recs.append(mk_rec('d%dc' % k, 'chr1', site, site - 2, 3, sample='cellB', mapq=60, key='alt'))
                    if nfiles == 2:                               # another library: other cells in the same bins
                        recs.append(mk_rec('d%dx' % k, 'chr1', site, site, 3, sample='lib2_cellA', mapq=60, key='ref', file=2))
                        recs.append(mk_rec('d%dy' % k, 'chr1', site + 2, site + 2, 3, sample='lib2_cellA', mapq=60, key='ref', file=2))
                    if k % 3 == 0:      # a supplementary read-1 record of molecule a in the same bin (always the same job) ...
                        recs.append(mk_rec('d%da' % k, 'chr1', site + 2, site + 2, 3, sample='cellA', mapq=60, key='ref',
                                           extra='supplementary'))
                    if k % 3 == 1:      # ... and a secondary one 6 bins away (another job for small bins-per-job)
                        recs.append(mk_rec('d%da' % k, 'chr1', (site + 30) % 55, (site + 30) % 55, 3, sample='cellA', mapq=60,
                                           key='ref', extra='secondary'))
                    if k % 4 == 2:      # a record without SM tag right after records of cellA, a QC-failed and an mp-bad one
                        recs.append(mk_rec('d%dn' % k, 'chr1', site + 3, site + 3, 2, sample='', mapq=60, key='ref'))
                        recs.append(mk_rec('d%dq' % k, 'chr1', site + 3, site + 3, 2, sample='cellB', mapq=60, key='ref', qcfail=True))
                        recs.append(mk_rec('d%dm' % k, 'chr1', site + 4, site + 4, 1, sample='cellB', mapq=60, key='ref', mp='multi'))
                bam = {'contigs': ['chr1', 'chr11'], 'lens': [ln, 20], 'nfiles': nfiles, 'hetero': False, 'recs': recs}
                recs.append(mk_rec('d_c11', 'chr11', 7, 7, 3, sample='cellA', mapq=60, key='ref'))
                if nfiles == 2:         # differing headers: the 2nd library has no chr11 but a contig of its own
                    bam.update(contigs=['chr1', 'chr11', 'chr2'], lens=[ln, 20, 30], hetero=True,
                               file_contigs={'1': ['chr1', 'chr11'], '2': ['chr1', 'chr2']})
                    recs.append(mk_rec('d_c2', 'chr2', 12, 12, 3, sample='lib2_cellA', mapq=60, key='ref', file=2))
                path = state['path'] = write_bams(tmp, bam)
                emit(dict(bam, ev='bam', source='directed_job_boundaries', seed=seed, bam_index=-nfiles))
                for mfs in (2, 0):
                    state['group'] += 1
                    base = {'bin': binsz, 'mfs': mfs, 'minmq': 0, 'dedup': True, 'usekey': False, 'skip': [],
                            'kwargs': 'empty' if mfs else 'ignore_mp'}
                    for bpj in (1, 2, 3, 4, 12):
                        for order in (-1, -2):
                            run(dict(base, bpj=bpj), 'fake', 1, order)
            # (1c) directed bin-size / MAPQ cases (independent of the seed): bin sizes whose float reciprocal rounds down
            # (49, 98, 103, 107, 161) with sites on EXACT multiples of the bin size, and the MAPQ pool 255, 254, 0,
            # threshold, threshold +- 1 against a threshold of 20
            ln, thr = 700, 20
            sites = sorted(set(k * b for b in (49, 98, 103, 107, 161) for k in range(0, ln // b + 1) if k * b < ln))
            pool = [255, 254, 60, thr, thr + 1, thr - 1, 0]
            recs = [mk_rec('e%d' % i, 'chr1', st, st, 4 if st + 4 <= ln else ln - st, sample=('cellA', 'cellB')[i % 2],
                           mapq=pool[i % len(pool)], key='ref') for i, st in enumerate(sites)]
            recs += [mk_rec('f%d' % i, 'chr1', 49 * (i + 1), 49 * (i + 1), 3, sample='cellB', mapq=q, key='alt')
                     for i, q in enumerate(pool)]                     # every MAPQ of the pool also on a multiple of 49
            bam = {'contigs': ['chr1'], 'lens': [ln], 'nfiles': 1, 'hetero': False, 'recs': recs}
            path = state['path'] = write_bams(tmp, bam)
            emit(dict(bam, ev='bam', source='directed_binsize_mapq', seed=seed, bam_index=-3))
            for binsz in (49, 98, 103, 107, 161):
                state['group'] += 1
                base = {'bin': binsz, 'mfs': 5, 'minmq': thr, 'dedup': True, 'usekey': False, 'skip': [], 'kwargs': 'empty'}
                for bpj in (1, 2, 50):
                    run(dict(base, bpj=bpj), 'fake', 1, -2)
            state['group'] += 1
            for mq in (0, 255):                                       # thresholds 0 and 255 themselves
                run({'bin': 49, 'mfs': 5, 'minmq': mq, 'dedup': True, 'usekey': False, 'skip': [], 'kwargs': 'empty', 'bpj': 3},
                    'fake', 1, -1)
                state['group'] += 1
            # (2) random BAMs x job partitions x schedules
            nbam, npart, nreal = (40, 8, 1) if tier == 'quick' else (600, 16, 2)
            for b in range(nbam):
                in_pre = rng.random() < 0.85
                bam, binsz, mfs, minmq = gen_bam(rng, in_pre)
                path = state['path'] = write_bams(tmp, bam)
                emit(dict(bam, ev='bam', source='random', seed=seed, bam_index=b))
                usekey = rng.random() < 0.4
                state['group'] += 1
                maxbpj = max(bam['lens']) // binsz + 2
                bpjs = [1, maxbpj] + [rng.randint(1, maxbpj) for _ in range(npart - 2)]
                base = {'bin': binsz, 'mfs': mfs, 'minmq': minmq, 'dedup': rng.random() < 0.85, 'kwargs': 'empty',
                        'usekey': usekey, 'skip': []}
                if len(bam['contigs']) > 1 and rng.random() < 0.25:
                    base['skip'] = rng.sample(bam['contigs'], rng.choice([1, 1, 2]))[:len(bam['contigs']) - 1]
                if rng.random() < 0.25:
                    base['kwargs'] = 'ignore_mp'      # kwargs={'ignore_mp': True}: mappability not consulted, QC failures still are
                if minmq == 0 and rng.random() < 0.5:
                    base['mq_none'] = True          # min_mq=None: no threshold (same meaning as 0)
                for i, bpj in enumerate(bpjs):
                    real = i >= len(bpjs) - nreal
                    run(dict(base, bpj=bpj, progress=rng.random() < 0.2), 'real' if real else 'fake', rng.choice([1, 2, 4, 4]) if real else 1,
                        rng.randrange(1 << 30))
                if b % 5 == 0:      # the documented default kwargs=None of generate_commands
                    state['group'] += 1
                    run(dict(base, bpj=rng.choice(bpjs), kwargs='none'), 'fake', 1, 0)
                # get_binned_counts: one job per contig, and (extension) adjacent user regions
                # whole contigs: regions=None, or every contig given by name; built-in filter or an equivalent user filter
                names = list(bam['contigs']) if b % 3 == 1 else None
                uf = b % 4 == 2
                raised, rows = run_gbc(bbc, path, binsz, list(names) if names else None, use_filter=uf)      # the callee rewrites the list
                emit({'ev': 'gbc', 'bin': binsz, 'regions': 'none', 'region_list': names or [], 'user_filter': uf,
                      'raised': raised, 'counts': rows})
                if b % 2 == 0:
                    regs = tiling(rng, bam)
                    raised, rows = run_gbc(bbc, path, binsz, [tuple(r) for r in regs])
                    emit({'ev': 'gbc', 'bin': binsz, 'regions': 'tiling', 'region_list': [list(r) for r in regs],
                          'raised': raised, 'counts': rows})
    for fn in os.listdir(tmp):
        os.remove(os.path.join(tmp, fn))
    os.rmdir(tmp)


if __name__ == '__main__':
    main()
