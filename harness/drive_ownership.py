"""C08 driver: parallel tagging vs one serial pass.  Only drives the real code and records raw observations;
TLC (spec/Trace_Ownership.tla) judges.

usage: drive_ownership.py <out.ndjson> <tier> <seed> [<scenarios.json>]
       drive_ownership.py --replay <case.json> <out.ndjson>        (re-run one recorded case)

Modes (field "mode" of every event):
  scn    TLC-generated scenario (library x tiling of the bounded Ownership model, coordinates scaled by 10) replayed into
         the real tagging.run_tagging_task, one call per bin; serial reference = one run_tagging_task over the whole contig
  tasks  random library, hand-made tilings (cut points, margins, job sizes), tagging.run_tagging_task per task;
         serial reference = the real single-process CLI (run_multiome_tagging_cmd without --multiprocess)
  api    random library through bamtagmultiome.tag_multiome_multi_processing(one_contig_per_process=False, bp_per_segment,
         bp_per_job, fragment_size, use_pool) - tiling by the repo's own blacklisted_binning_contigs + bp_chunked
  cpp    random library on large contigs through the CLI with --multiprocess -tagthreads k (contig-per-process plan)

Event (one per library x partition):
  {"ev":"run","tid","mode","method","contigs":[len,..],
   "serial":[{"s","sc","recs":[{"q","m","f","c","p","e","t"}]}],   one entry per molecule of the serial pass, s/sc = its cut site
   "plan":[[{"c","s","e","fs","fe"}]],        the job list handed to the workers (wrapper around generate_tasks)
   "jobs":[{"tasks":[{"c","s","e","fs","fe"}],"recs":[{"q","m","f","c","p","t","ix"}]}],       the jobs that returned
   "merged":[{"q","m","f","c","p","t"}]   (api / cpp: the merged output file re-read; tasks / scn: empty = union of jobs)
   "pred":[[id,..] per bin]               (scn only: the model's prediction for the as-coded loop) , "case": generator input}
-1 stands for None everywhere (whole-contig task, '*' contig, no site).
"""
import contextlib
import io
import json
import os
import random
import shutil
import sys
import tempfile
import uuid

import pysam

import bamgen

SC = 10          # scale of the model's cells in scenario replays
SKIP_TAGS = ('mi', 'ix')   # per-run molecule identifiers (the statement exempts them)

_FILL = 'ACGGTCAGTTCAGGATCCTAGCTTAGGCAATCGTACGATTGCAGTCCATTGACCTGAATGCGTTACGGATCAGTCAAGCTTGGA'


def fill(n, off=0):
    s = (_FILL * (2 + (n + off) // len(_FILL)))[off % len(_FILL):]
    return s[:n]


# ------------------------------------------------------------------------------------------------
# abstract library -> reads

def frag_reads(header, contigs, method, idx, fr):
    """fr: dict(c, lo, hi, rev, l1, l2, valid, umi, cell, [name]).  Returns pysam reads (R1[, R2])."""
    cname = contigs[fr['c']][0]
    lo, hi, rev, l1, l2 = fr['lo'], fr['hi'], fr['rev'], fr['l1'], fr['l2']
    name = fr.get('name') or 'f%d' % idx
    tags = {'SM': fr.get('cell', 'cellA'), 'RX': fr.get('umi', 'AAA')}
    paired = l2 > 0
    r1s = hi - l1 if rev else lo
    r2s = (lo if rev else hi - l2) if paired else None
    if fr.get('pu'):      # unmapped but placed (flag 0x4 with RNAME / POS): single read or pair, both mates unmapped at `lo`
        out = [bamgen.make_read(header, name, cname, lo, fill(l1, idx * 7), unmapped=True, paired=paired, read1=paired,
                                mate_unmapped=paired, mate_contig=cname if paired else None, mate_pos=lo, tags=tags)]
        if paired:
            out.append(bamgen.make_read(header, name, cname, lo, fill(l2, idx * 11 + 3), unmapped=True, paired=True, read2=True,
                                        mate_unmapped=True, mate_contig=cname, mate_pos=lo, tags=tags))
        return out
    clip = fr.get('clip', 0)        # soft-clipped bases at R1's 5' end (moves the NlaIII / CHiC site outwards by `clip`)
    body = fill(l1 + clip, idx * 7)
    n1 = l1 + clip
    if method == 'nla':
        if fr['valid']:
            seq1 = (body[:n1 - 4] + 'CATG') if rev else ('CATG' + body[:n1 - 4])
        else:   # no motif at either end
            seq1 = 'TTGG' + body[:n1 - 8] + 'GGTT'
        qc1 = False
    else:       # chic: every mapped R1 has a site; a rejected fragment is one whose R1 carries the qc-fail bit
        seq1 = body
        qc1 = not fr['valid']
    cig1 = None if not clip else (('%dM%dS' % (l1, clip)) if rev else ('%dS%dM' % (clip, l1)))
    if paired and fr.get('r1_unmapped', False):          # mate 1 unmapped, stored at mate 2's position
        return [bamgen.make_read(header, name, cname, r2s, seq1, paired=True, read1=True, unmapped=True, mate_contig=cname, mate_pos=r2s,
                                 mate_reverse=not rev, qcfail=qc1, tags=tags),
                bamgen.make_read(header, name, cname, r2s, fill(l2, idx * 11 + 3), reverse=not rev, paired=True, read2=True,
                                 mate_contig=cname, mate_pos=r2s, mate_unmapped=True, tags=tags)]
    r2un = paired and fr.get('r2_unmapped', False)     # mate 2 unmapped, placed at mate 1's position
    c2name = cname
    if paired and not r2un and fr.get('r2_c', -1) >= 0:       # -1: same contig (no JSON null in recorded cases)
        c2name = contigs[fr['r2_c']][0]
        r2s = min(r2s, contigs[fr['r2_c']][1] - l2 - 1)
    reads = [bamgen.make_read(header, name, cname, r1s, seq1, cigar=cig1, reverse=rev, paired=paired, read1=paired,
                              proper=paired and not r2un and c2name == cname, mate_contig=c2name if paired else None, mate_pos=r1s if r2un else r2s,
                              mate_reverse=(not rev) if paired and not r2un else False, mate_unmapped=r2un,
                              qcfail=qc1, tags=tags, dup=fr.get('dup_in', False))]
    if r2un:
        reads.append(bamgen.make_read(header, name, cname, r1s, fill(l2, idx * 11 + 3), paired=True, read2=True, unmapped=True,
                                      mate_contig=cname, mate_pos=r1s, mate_reverse=rev, tags=tags))
    elif paired:
        # r2_del: R2 aligned with a 2 bp deletion (reference span l2, query l2 - 2); r2_c: R2 maps to another contig
        a = l2 // 2
        cig2, q2 = (('%dM2D%dM' % (a, l2 - 2 - a)), l2 - 2) if fr.get('r2_del') else (None, l2)
        reads.append(bamgen.make_read(header, name, c2name, r2s, fill(q2, idx * 11 + 3), cigar=cig2, reverse=not rev, paired=True,
                                      read2=True, proper=c2name == cname, mate_contig=cname, mate_pos=r1s, mate_reverse=rev, tags=tags))
    return reads


PG_LINES = [{'ID': 'bwa', 'PN': 'bwa', 'VN': '0.7.17', 'CL': 'bwa mem'},
            {'ID': 'bamtagmultiome', 'PN': 'bamtagmultiome', 'VN': '0', 'CL': 'earlier run'},
            {'ID': 'bamtagmultiome_0', 'PN': 'bamtagmultiome', 'VN': '0', 'CL': 'run before that'}]


def write_library(path, contigs, method, frags, extra_reads_fn=None, pg=False):
    """pg: the input header already carries @PG lines, two of them of earlier bamtagmultiome runs (write_program_tag has to
    find a free ID)"""
    header = bamgen.make_header(contigs, extra={'PG': PG_LINES} if pg else None)
    reads = []
    for i, fr in enumerate(frags, 1):
        reads += frag_reads(header, contigs, method, i, fr)
    if extra_reads_fn:
        reads += extra_reads_fn(header)
    bamgen.write_bam(path, header, reads)     # stable sort: file order among equal coordinates = (fragment index, mate)
    return path


# ------------------------------------------------------------------------------------------------
# observation helpers (projection only)

def mate_of(r):
    return 1 if r.is_read1 else (2 if r.is_read2 else 0)


def proj(r, with_ix=False):
    tags = sorted((k, v) for k, v in r.get_tags() if k not in SKIP_TAGS)
    d = {'q': r.query_name, 'm': mate_of(r), 'f': int(r.flag), 'c': int(r.reference_id), 'p': int(r.reference_start),
         'e': int(r.reference_end) if r.reference_end is not None else int(r.reference_start),
         't': ';'.join('%s=%s' % kv for kv in tags)}
    if with_ix:
        d['ix'] = int(r.get_tag('ix')) if r.has_tag('ix') else -1
    return d


def read_bam(path, with_ix=False):
    with pysam.AlignmentFile(path) as f:
        return [proj(r, with_ix) for r in f.fetch(until_eof=True)]


class Collector:
    """the 'pysam.AlignmentFile or similar' output handle of run_tagging_task"""

    def __init__(self):
        self.recs = []

    def write(self, read):
        self.recs.append(proj(read, True))


_MOL_LOG = None


def _observing_iterator_class():
    from singlecellmultiomics.molecule import MoleculeIterator

    class ObservingMoleculeIterator(MoleculeIterator):
        """logs every molecule the iterator yields: its reads and its cut site"""

        def __iter__(self):
            for m in MoleculeIterator.__iter__(self):
                if _MOL_LOG is not None:
                    # the site the tagger's ownership filter looks at (tagging.py:120-125): the location of the first
                    # fragment that has one (CHICMolecule.get_cut_site() raises for rejected fragments)
                    site = None
                    for fragment in m:
                        site = fragment.get_site_location()
                        if site is not None:
                            break
                    _MOL_LOG.append({'reads': [(r.query_name, mate_of(r)) for r in m.iter_reads()],
                                     'site': None if site is None else (site[0], site[1])})
                yield m
    return ObservingMoleculeIterator


def method_classes(method):
    import singlecellmultiomics.molecule as mol
    import singlecellmultiomics.fragment as frg
    if method == 'nla':
        return mol.NlaIIIMolecule, frg.NlaIIIFragment
    return mol.CHICMolecule, frg.CHICFragment


def iterator_args(method):
    """the molecule_iterator_args the CLI builds for -method nla / chic (bamtagmultiome.py:703-1070)"""
    mc, fc = method_classes(method)
    return {'query_name_flagger': None, 'molecule_class': mc, 'fragment_class': fc,
            'molecule_class_args': {'umi_hamming_distance': 1, 'reference': None},
            'fragment_class_args': {'read_group_format': 0}, 'yield_invalid': True, 'yield_overflow': True,
            'every_fragment_as_molecule': False, 'skip_contigs': set(), 'pooling_method': 1,
            'perform_allele_clustering': False}


def attach_molecules(recs, mol_log, contig_ids):
    """group the records of the serial output by the molecule the iterator yielded them in (join on name, mate) and copy
    the observed cut site next to them: [{"s","sc","recs":[..]}]"""
    where = {}
    for g, m in enumerate(mol_log):
        for key in m['reads']:
            where[tuple(key)] = g
    mols = []
    for m in mol_log:
        site = m['site']
        d = {'s': -1, 'sc': -1, 'recs': []}
        if site is not None and site[1] is not None and site[0] in contig_ids:
            d['s'], d['sc'] = int(site[1]), contig_ids[site[0]]
        mols.append(d)
    stray = {'s': -1, 'sc': -1, 'recs': []}      # records the observer never saw in a molecule (kept, judged as their own group)
    for r in recs:
        g = where.get((r['q'], r['m']))
        (mols[g] if g is not None else stray)['recs'].append(r)
    mols = [m for m in mols if m['recs']]
    if stray['recs']:
        mols.append(stray)
    return mols


@contextlib.contextmanager
def quiet():
    buf = io.StringIO()
    with contextlib.redirect_stdout(buf):
        yield buf


def serial_cli(btm, bam, out, method, contigs, extra=()):
    """one serial pass of the real tagger (single process CLI), molecules observed through the iterator class"""
    global _MOL_LOG
    _MOL_LOG = []
    orig = btm.MoleculeIterator
    btm.MoleculeIterator = _observing_iterator_class()
    try:
        with quiet():
            btm.run_multiome_tagging_cmd([bam, '-o', out, '-method', method, *extra])
    finally:
        btm.MoleculeIterator = orig
    log, _MOL_LOG = _MOL_LOG, None
    cid = {n: i for i, (n, _) in enumerate(contigs)}
    return attach_molecules(read_bam(out), log, cid)


def serial_direct(tagging, bam, method, contigs):
    """serial reference of the scenario replays: the same loop over whole contigs + '*' (no region filter)"""
    global _MOL_LOG
    _MOL_LOG = []
    col = Collector()
    cls = _observing_iterator_class()
    with pysam.AlignmentFile(bam) as al:
        for c in ['*'] + [n for n, _ in contigs]:
            tagging.run_tagging_task(al, col, contig=c, molecule_iterator_class=cls, molecule_iterator_args=iterator_args(method))
    log, _MOL_LOG = _MOL_LOG, None
    cid = {n: i for i, (n, _) in enumerate(contigs)}
    recs = [{k: v for k, v in r.items() if k != 'ix'} for r in col.recs]
    return attach_molecules(recs, log, cid)


def run_tasks(tagging, bam, method, contigs, jobs):
    """jobs: list of lists of (cidx, s, e, fs, fe) (or (cidx,None,..) whole contig, cidx -1 = '*')"""
    from singlecellmultiomics.molecule import MoleculeIterator
    out = []
    with pysam.AlignmentFile(bam) as al:
        for job in jobs:
            col = Collector()
            for (c, s, e, fs, fe) in job:
                # c = -1: the '*' contig; c = -2: no region at all (the "not supplying any coordinates" form: whole file)
                tagging.run_tagging_task(al, col, contig=None if c == -2 else ('*' if c < 0 else contigs[c][0]), start=s, end=e, fetch_start=fs,
                                         fetch_end=fe, molecule_iterator_class=MoleculeIterator,
                                         molecule_iterator_args=iterator_args(method))
            out.append({'tasks': [task_rec(t) for t in job], 'recs': col.recs})
    return out


def task_rec(t):
    c, s, e, fs, fe = t
    n = lambda x: -1 if x is None else int(x)
    return {'c': int(c), 's': n(s), 'e': n(e), 'fs': n(fs), 'fe': n(fe)}


# ---- observation of the multiprocess paths: module-level names of bamtagmultiome are wrapped ------------------------
_OBS_DIR = None
_ORIG_RTT = None


def observed_run_tagging_tasks(args):
    """wrapper installed as bamtagmultiome.run_tagging_tasks (runs in the worker): after the real function returned,
    re-read the job's output file and store it with the job's tasks"""
    (path, temp_dir, timeout), arglist = args
    target, meta = _ORIG_RTT(args)
    recs = read_bam(target, True) if target is not None else []
    tasks = [[t.get('contig'), t.get('start'), t.get('end'), t.get('fetch_start'), t.get('fetch_end')] for t in arglist]
    with open(os.path.join(_OBS_DIR, 'job_%s.json' % uuid.uuid4().hex), 'w') as f:
        json.dump({'tasks': tasks, 'recs': recs}, f)
    return target, meta


def collect_jobs(obs_dir, contigs):
    cid = {n: i for i, (n, _) in enumerate(contigs)}
    jobs = []
    for fn in os.listdir(obs_dir):
        with open(os.path.join(obs_dir, fn)) as f:
            j = json.load(f)
        jobs.append({'tasks': [task_rec((cid.get(t[0], -1), t[1], t[2], t[3], t[4])) for t in j['tasks']], 'recs': j['recs']})
    jobs.sort(key=lambda j: json.dumps(j['tasks']))     # by content, never by completion time
    return jobs


def run_parallel(btm, call, contigs, tmp, order_seed=None):
    """order_seed: the job list built by generate_tasks is permuted (seeded) before it is handed to the pool / the
    sequential loop, i.e. the jobs complete - and are merged - in another order"""
    global _OBS_DIR, _ORIG_RTT
    _OBS_DIR = tempfile.mkdtemp(prefix='obs_', dir=tmp)
    _ORIG_RTT = btm.run_tagging_tasks
    btm.run_tagging_tasks = observed_run_tagging_tasks
    orig_gen = btm.generate_tasks
    plan = []

    def observed_generate_tasks(*a, **kw):
        tasks = list(orig_gen(*a, **kw))
        if order_seed is not None:
            random.Random(order_seed).shuffle(tasks)
        cid = {n: i for i, (n, _) in enumerate(contigs)}
        for _, arglist in tasks:
            plan.append([task_rec((cid.get(t.get('contig'), -1), t.get('start'), t.get('end'), t.get('fetch_start'),
                                   t.get('fetch_end'))) for t in arglist])
        return tasks
    btm.generate_tasks = observed_generate_tasks
    raised = ''
    try:
        with quiet():
            call()
    except Exception as ex:      # a crash of the code under test is an observation
        raised = type(ex).__name__
    finally:
        btm.run_tagging_tasks = _ORIG_RTT
        btm.generate_tasks = orig_gen
    jobs = collect_jobs(_OBS_DIR, contigs)
    shutil.rmtree(_OBS_DIR, True)
    plan.sort(key=json.dumps)
    return jobs, raised, plan


def run_api(btm, bam, out, method, contigs, tmp, seg, job, fsize, use_pool, threads, order_seed=None, bed=False, args=None,
            max_time=None):
    from singlecellmultiomics.molecule import MoleculeIterator

    def call():
        btm.tag_multiome_multi_processing(bam, out, molecule_iterator=MoleculeIterator,
                                          molecule_iterator_args=args if args is not None else iterator_args(method),
                                          fragment_size=fsize, bp_per_job=job, bp_per_segment=seg, temp_folder_root=tmp,
                                          use_pool=use_pool, one_contig_per_process=False,
                                          additional_args={'consensus_mode': None}, n_threads=threads,
                                          job_bed_file=os.path.join(tmp, 'jobs.bed') if bed else None,
                                          max_time_per_segment=max_time)
    jobs, raised, plan = run_parallel(btm, call, contigs, tmp, order_seed)
    merged = [{k: v for k, v in r.items() if k != 'e'} for r in read_bam(out)] if os.path.exists(out) and not raised else []
    return jobs, merged, raised, plan


def prepare_index(bam, state):
    if state == 'missing':
        os.remove(bam + '.bai')
    elif state == 'older':
        st = os.stat(bam + '.bai')
        os.utime(bam + '.bai', (st.st_atime - 100, st.st_mtime - 100))
        os.utime(bam, None)


def run_cpp(btm, bam, out, method, contigs, tmp, threads):
    def call():
        btm.run_multiome_tagging_cmd([bam, '-o', out, '-method', method, '--multiprocess', '-tagthreads', str(threads),
                                      '-temp_folder', tmp])
    jobs, raised, plan = run_parallel(btm, call, contigs, tmp)
    merged = [{k: v for k, v in r.items() if k != 'e'} for r in read_bam(out)] if os.path.exists(out) and not raised else []
    return jobs, merged, raised, plan


# ------------------------------------------------------------------------------------------------
# generators (abstract description first)

def scenario_library(scn):
    """TLC scenario -> (contigs, method, frags, tiling jobs); coordinates x SC"""
    method = 'chic' if scn.get('siteout', 0) == 1 else 'nla'
    contigs = [('chrS', scn['ln'] * SC)]
    frags = []
    for f in scn['frags']:
        frags.append({'c': 0, 'lo': f['lo'] * SC, 'hi': f['hi'] * SC, 'rev': bool(f['rev']), 'l1': f['l1'] * SC, 'l2': f['l2'] * SC,
                      'valid': bool(f['valid']), 'umi': ['AAA', 'CCC', 'GGG'][f['umi'] - 1], 'cell': 'cellA'})
    bounds = [0] + [c * SC for c in scn['cuts']] + [scn['ln'] * SC]
    m = scn['m'] * SC
    jobs = [[(-1, None, None, None, None)]]
    for a, b in zip(bounds, bounds[1:]):
        jobs.append([(0, a, b, max(0, a - m), min(scn['ln'] * SC, b + m))])
    return contigs, method, frags, jobs


def unplaced_reads(n):
    def fn(header):
        return [bamgen.make_read(header, 'u%d' % k, None, 0, fill(30, k), unmapped=True, tags={'SM': 'cellA', 'RX': 'TTT'})
                for k in range(1, n + 1)]
    return fn


NAME_SCHEMES = [['chr1', 'chr2', 'chr3', 'chr4', 'chr5', 'chr6'],
                ['chr1', 'chr11', 'chr1_alt', 'chr111', 'chr1_random', 'chr'],      # names that are substrings of each other
                ['1', '11', 'MT', 'X', '10', '0'],
                # legal SAM names with '*', ':', '-', '|', '=' after the first character (GRCh38 HLA alt contigs ...)
                ['HLA-A*01:01:01:01', 'HLA-B*07:02', 'chr1|alt', 'c=1', 'A-B:1-2', 'chrUn_KI270302v1']]


def random_library(rng, method, big=False, n_small=0, unmapped_only=False, scheme=None):
    """molecules straddling the boundaries of a grid (bin size B, margin F) on 1-3 contigs, trimmed reads of unequal
    length, PCR duplicates with different R2 ends, rejected reads, single-end reads, unplaced reads"""
    B = rng.choice([300, 400, 500])
    F = rng.choice([60, 80, 120])
    nct = rng.randint(1, 3)
    if big:     # contig-per-process layouts: big (>= 100 kb) contigs with n_small small ones (< 100 kb) in any position
        lens = [rng.choice([100000, 130000, 250000]) for _ in range(rng.randint(1, 2))] + \
               [rng.choice([4 * B + 11, 20000, 99999]) for _ in range(n_small)]
        rng.shuffle(lens)
        names = NAME_SCHEMES[scheme] if scheme is not None else rng.choice(NAME_SCHEMES)
        contigs = [(names[i], l) for i, l in enumerate(lens)]
    else:
        names = NAME_SCHEMES[scheme] if scheme is not None else rng.choice(NAME_SCHEMES)
        ragged = rng.random() < 0.5            # contig lengths that are no multiple of the grid / of the number of bins
        contigs = [(names[i], rng.choice([3, 4, 5]) * B + (rng.choice([1, 2, 3, 5, 7, 37, B // 2]) if ragged else 0))
                   for i in range(nct)]
    maxext = rng.choice([F, F, F // 2, F + 25])          # longest fragment of this library (F + 25: precondition can fail)
    frags = []
    for c, (cn, ln) in enumerate(contigs):
        span_lim = min(ln, 6 * B)
        nb = span_lim // B
        for _ in range(rng.randint(3, 9)):
            k = rng.randint(1, max(1, nb))
            anchor = rng.choice([k * B, k * B, k * B + F, k * B - F, k * B + rng.randint(-B // 2, B // 2)])
            rev = rng.random() < 0.5
            ext = rng.choice([maxext, maxext, rng.randint(24, maxext), rng.randint(24, maxext)])
            jit = rng.choice([0, 0, -1, 1, -4, 4, 5, -ext, ext, -ext + 1, ext - 1, rng.randint(-ext, ext)])
            valid = rng.random() < 0.8
            cell = rng.choice(['cellA', 'cellA', 'cellB'])
            umi = rng.choice(['AAA', 'AAC', 'CCC', 'GGT'])
            # the site end of the fragment sits at anchor + jit
            if rev:
                hi = anchor + jit
                lo = hi - ext
            else:
                lo = anchor + jit
                hi = lo + ext
            for d in range(rng.choice([1, 1, 2, 3])):
                e2 = ext if d == 0 else rng.randint(max(24, ext // 2), ext)   # duplicates: same site, other R2 end
                flo, fhi = (hi - e2, hi) if rev else (lo, lo + e2)
                if flo < 1 or fhi > ln - 1:
                    continue
                single = rng.random() < 0.25
                l1 = e2 if single else rng.randint(min(20, e2), e2)
                l2 = 0 if single else rng.randint(min(12, e2), e2)
                frags.append({'c': c, 'lo': flo, 'hi': fhi, 'rev': rev, 'l1': max(l1, 10), 'l2': l2, 'valid': valid, 'umi': umi if d == 0 or rng.random() < 0.7 else 'AAC',
                              'cell': cell, 'dup_in': rng.random() < 0.1,
                              'r2_unmapped': (not single) and rng.random() < 0.08,
                              'r1_unmapped': (not single) and rng.random() < 0.06,
                              'r2_del': (not single) and l2 >= 12 and rng.random() < 0.15,
                              'r2_c': rng.choice([x for x in range(len(contigs)) if x != c])
                              if (not single) and len(contigs) > 1 and rng.random() < 0.06 else -1})
    frags = [f for f in frags if f['l1'] <= f['hi'] - f['lo'] and f['l2'] <= f['hi'] - f['lo']]
    # molecules whose cut site lies in the first / last few bases of a contig (bins must cover the contig to its very ends):
    # NlaIII: forward R1 starting at d (site d); reverse R1 ending at ln-d with its CATG soft-clipped (site ln-d)
    # CHiC:   forward R1 starting at d (site d-1); reverse R1 ending at ln-d (site ln-d)
    for c, (cn, ln) in enumerate(contigs):
        for rev in (False, True):
            if rng.random() < 0.85:
                d = rng.choice([1, 1, 2, 3] + ([0] if (method == 'nla' and not rev) else []))     # NlaIII forward at 0: site 0
                ext = rng.randint(24, min(maxext, 60))
                lo, hi = (ln - d - ext, ln - d) if rev else (d, d + ext)
                single = rng.random() < 0.4
                frags.append({'c': c, 'lo': lo, 'hi': hi, 'rev': rev, 'l1': ext if single else rng.randint(20, ext),
                              'l2': 0 if single else rng.randint(12, ext), 'valid': rng.random() < 0.85, 'umi': 'GGT', 'cell': 'cellA',
                              'dup_in': False, 'r2_unmapped': False, 'clip': 4 if (rev and method == 'nla') else 0})
    for f in frags:
        if f.get('r1_unmapped'):
            f['r2_unmapped'] = False
        if f.get('r2_unmapped') or f.get('r1_unmapped') or f['l2'] == 0:
            f['r2_c'] = -1
    # half-mapped pairs of both kinds in every library, next to a bin start (the region jobs see them as two fragments: the
    # mapped mate alone, and the unmapped mate as an orphan whose only location is the position it is stored at)
    for which in ('r2_unmapped', 'r1_unmapped'):
        c = rng.randrange(len(contigs))
        lo = B + rng.choice([-30, -1, 0, 1, 17])
        frags.append({'c': c, 'lo': lo, 'hi': lo + 50, 'rev': rng.random() < 0.5, 'l1': 30, 'l2': 24, 'valid': True, 'umi': 'CCC',
                      'cell': 'cellB', 'dup_in': False, 'r2_unmapped': which == 'r2_unmapped', 'r1_unmapped': which == 'r1_unmapped',
                      'r2_c': -1})
    for c in range(len(contigs)):       # every contig carries reads
        if not any(f['c'] == c for f in frags):
            frags.append({'c': c, 'lo': B + 3, 'hi': B + 43, 'rev': False, 'l1': 30, 'l2': 20, 'valid': True, 'umi': 'AAA',
                          'cell': 'cellA', 'dup_in': False, 'r2_unmapped': False})
    frags.sort(key=lambda f: (f['c'], f['lo']))
    if not big and rng.random() < 0.25:      # a contig without any read (first, middle or last in the header)
        at = rng.randint(0, len(contigs))
        contigs.insert(at, ('empty', rng.choice([2 * B, 2 * B + 1])))
        for f in frags:
            f['c'] += f['c'] >= at
            if f.get('r2_c', -1) >= 0:
                f['r2_c'] += f['r2_c'] >= at
    if unmapped_only or (not big and rng.random() < 0.3):
        # a contig whose only reads are unmapped-but-placed (idxstats: mapped 0, unmapped > 0); small or big in the CLI layouts
        at = rng.randint(0, len(contigs))
        ln = rng.choice([100000, 99999, 5 * B]) if big else rng.choice([3 * B, 3 * B + 2])
        contigs.insert(at, ('unmappedonly', ln))
        for f in frags:
            f['c'] += f['c'] >= at
            if f.get('r2_c', -1) >= 0:
                f['r2_c'] += f['r2_c'] >= at
        for j in range(rng.randint(1, 3)):
            p0 = rng.choice([0, B, B - 1, rng.randint(1, min(ln, 5 * B) - 40)])
            frags.append({'c': at, 'lo': p0, 'hi': p0 + 30, 'rev': False, 'l1': 30, 'l2': rng.choice([0, 30]), 'valid': False,
                          'umi': 'TTT', 'cell': 'cellA', 'pu': True, 'r2_c': -1})
        frags.sort(key=lambda f: (f['c'], f['lo']))
    return {'B': B, 'F': F, 'contigs': contigs, 'frags': frags, 'nun': rng.choice([0, 1, 3]), 'maxext': maxext}


def hand_tilings(rng, lib, n):
    """n partitions of every contig: cut points on / off the grid, margins around the longest fragment, job sizes"""
    out = []
    ext = max([f['hi'] - f['lo'] for f in lib['frags']] + [1]) + 1
    for k in range(n):
        margin = [ext, ext, ext + rng.randint(1, 40), lib['F'], 10 * ext, max(0, ext - rng.randint(5, 30))][k % 6]
        tasks = []
        for c, (cn, ln) in enumerate(lib['contigs']):
            if k % 3 == 0:
                cuts = list(range(lib['B'], ln, lib['B']))
            else:
                pts = [f['lo'] for f in lib['frags'] if f['c'] == c] + [f['hi'] for f in lib['frags'] if f['c'] == c]
                pts = [p + rng.choice([-4, -1, 0, 1, 4]) for p in pts] + [rng.randint(1, ln - 1) for _ in range(3)]
                cuts = sorted(set(p for p in rng.sample(pts, min(len(pts), rng.randint(1, 5))) if 0 < p < ln))
            b = [0] + cuts + [ln]
            for a, z in zip(b, b[1:]):
                tasks.append((c, a, z, max(0, a - margin), min(ln, z + margin)))
        jobs = [[(-1, None, None, None, None)]]
        size = rng.choice([1, 1, 2, 3])
        for i in range(0, len(tasks), size):
            jobs.append(tasks[i:i + size])
        out.append(jobs)
    out.append([[(-1, None, None, None, None)], [(-2, None, None, None, None)]])    # one job without any coordinates + the '*' job
    return out


def ejection_library():
    """The serial pass looks at its molecule buffer once per check_eject_every + 1 = 10,001 valid fragments; the jobs of a tiling
    restart that counter.  9,997 filler fragments (100 sites x ~100 PCR duplicates, single-end) + the SHORT duplicate S of molecule M
    (10 kb behind the last filler) + five single reads T1..T5 650 bp downstream of M's site - the 10,001st valid fragment is T3 -
    and then the LONG duplicate L of M, whose R2 lies 860 bp downstream and is therefore released after the buffer check.
    With the shipped cache radius (5,000 bp) M is not ejectable at that moment and serial == tiled."""
    frags = []
    sites = [2000 + 560 * i for i in range(100)]
    n = 0
    for i, st in enumerate(sites):
        for d in range(100 if i < 97 else 99):
            if n < 9997:
                frags.append({'c': 0, 'lo': st, 'hi': st + 30, 'rev': False, 'l1': 30, 'l2': 0, 'valid': True, 'umi': 'ACG', 'cell': 'cellA'})
                n += 1
    s0 = 70000
    frags.append({'c': 0, 'lo': s0, 'hi': s0 + 100, 'rev': False, 'l1': 40, 'l2': 40, 'valid': True, 'umi': 'AAA', 'cell': 'cellB'})   # S
    for j in range(5):
        frags.append({'c': 0, 'lo': s0 + 650 + 5 * j, 'hi': s0 + 690 + 5 * j, 'rev': False, 'l1': 40, 'l2': 0, 'valid': True, 'umi': 'CCC',
                      'cell': 'cellB'})                                                                                             # T1..T5
    frags.append({'c': 0, 'lo': s0, 'hi': s0 + 900, 'rev': False, 'l1': 40, 'l2': 40, 'valid': True, 'umi': 'AAA', 'cell': 'cellB'})   # L
    return {'B': 20000, 'F': 1000, 'contigs': [('chr1', 80000)], 'frags': frags, 'nun': 0, 'maxext': 900, 'pg': False}


def ejection_event(btm, tagging, tmp, tid):
    lib = ejection_library()
    bam = os.path.join(tmp, 'libJ.bam')
    write_library(bam, lib['contigs'], 'nla', lib['frags'], None)
    ser = serial_cli(btm, bam, os.path.join(tmp, 'serJ.bam'), 'nla', lib['contigs'])
    jobs = [[(-1, None, None, None, None)]] + [[(0, a, a + 20000, max(0, a - 1000), min(80000, a + 21000))] for a in range(0, 80000, 20000)]
    jr = run_tasks(tagging, bam, 'nla', lib['contigs'], jobs)
    for pth in os.listdir(tmp):
        if pth.startswith(('libJ.', 'serJ.')):
            os.remove(os.path.join(tmp, pth))
    return {'ev': 'run', 'tid': tid, 'mode': 'tasks', 'method': 'nla', 'contigs': [80000], 'serial': ser, 'jobs': jr,
            'plan': [j['tasks'] for j in jr], 'merged': [], 'raised': '',
            'case': {'directed': 'ejection', 'method': 'nla', 'jobs': [[task_rec(t) for t in j] for j in jobs]}}


def api_options(rng, lib, method, k, npool):
    """parameters of one region-API run (all JSON-able: 0 stands for None, '' for no contig)"""
    seg = rng.choice([lib['B'], lib['B'], lib['B'], lib['B'], lib['B'] // 2 + 7, 2 * lib['B'], 10 * lib['B']])
    exact = max([f['hi'] - f['lo'] + (1 if (method == 'chic' or f.get('clip')) else 0) for f in lib['frags']] + [1])
    fsize = rng.choice([lib['maxext'] + 1, exact, lib['F'], 2 * lib['F']])      # exact: request == longest fragment
    jobbp = rng.choice([seg, 2 * seg, 10 * seg, seg // 2, 0, 1])
    if k % 4 == 2:      # bins smaller than the fragments (and than the reads) while the requested margin covers a fragment
        seg = rng.choice([13, 30, 47])
        fsize = rng.choice([exact, exact + 1, 2 * lib['F'] + 60])
        jobbp = rng.choice([20 * seg, 60 * seg])
    use_pool = k < npool
    with_reads = sorted(set(lib['contigs'][f['c']][0] for f in lib['frags']))
    variant = {1: 'skipnone', 5: 'skip', 7: 'contig'}.get(k % 8, '') if with_reads else ''
    return {'seg': seg, 'fsize': fsize, 'jobbp': jobbp, 'use_pool': use_pool,
            'threads': 0 if (not use_pool and k % 5 == 0) else rng.randint(1, 8),     # 0: n_threads=None
            'order': rng.randint(1, 10 ** 6),
            'bed': k % 4 == 1,             # the -jobbed path: the job generator is materialised and written to a bed file first
            'maxtime': 10 ** 6 if k % 4 == 3 else 0,    # max_time_per_segment set (never reached): the timeout callback is armed
            # skipnone: skip_contigs=None; skip: one contig skipped (-skip_contig); contig: only one contig (-contig)
            'variant': variant, 'vcontig': rng.choice(with_reads) if variant in ('skip', 'contig') else ''}


def api_event(btm, bam, tmp, lib, method, ser, o, tid, tag='x'):
    """one region-API run; for the skip / contig variants the serial reference is the serial CLI with the same option"""
    args = iterator_args(method)
    if o.get('variant') == 'skipnone':
        args['skip_contigs'] = None
    elif o.get('variant') == 'skip':
        args['skip_contigs'] = {o['vcontig']}
        ser = serial_cli(btm, bam, os.path.join(tmp, 'serv%s.bam' % tag), method, lib['contigs'], ['-skip_contig', o['vcontig']])
    elif o.get('variant') == 'contig':
        args.update(contig=o['vcontig'], start=None, end=None)
        ser = serial_cli(btm, bam, os.path.join(tmp, 'serv%s.bam' % tag), method, lib['contigs'], ['-contig', o['vcontig']])
    par = os.path.join(tmp, 'par%s.bam' % tag)
    jobs, merged, raised, plan = run_api(btm, bam, par, method, lib['contigs'], tmp, o['seg'], o['jobbp'], o['fsize'], o['use_pool'],
                                         o['threads'] or None, o.get('order'), o.get('bed', False), args, o.get('maxtime') or None)
    for pth in (par, par + '.bai', os.path.join(tmp, 'serv%s.bam' % tag), os.path.join(tmp, 'serv%s.bam.bai' % tag)):
        if os.path.exists(pth):
            os.remove(pth)
    return {'ev': 'run', 'tid': tid, 'mode': 'api', 'method': method, 'contigs': [l for _, l in lib['contigs']], 'serial': ser,
            'jobs': jobs, 'plan': plan, 'merged': merged, 'raised': raised, 'req': o['fsize'],
            'case': {'lib': lib, 'method': method, 'api': o}}


# ------------------------------------------------------------------------------------------------

def main():
    if sys.argv[1] == '--replay':
        return replay_case(sys.argv[2], sys.argv[3])
    outp, tier, seed = sys.argv[1], sys.argv[2], int(sys.argv[3])
    scn_file = sys.argv[4] if len(sys.argv) > 4 else None
    rng = random.Random(seed)
    import singlecellmultiomics.universalBamTagger.bamtagmultiome as btm
    import singlecellmultiomics.universalBamTagger.tagging as tagging
    btm.sleep = lambda s: None          # harness-side patch: remove the 5 s wait before the temp dir is deleted
    tmp = tempfile.mkdtemp(prefix='c08_', dir=os.getcwd())
    tid = 0
    with open(outp, 'w') as f:
        def emit(e):
            f.write(json.dumps(e, separators=(',', ':')) + '\n')

        # ---- spec -> code: TLC scenarios
        if scn_file:
            with open(scn_file) as sf:
                scns = json.load(sf)
            for scn in scns:
                tid += 1
                emit(run_scenario(tagging, scn, tmp, tid))

        # ---- random libraries: hand-made tilings, region API, contig-per-process CLI
        nlib, ntil, napi, npool, ncpp = (24, 6, 16, 3, 6) if tier == 'quick' else (250, 16, 100, 20, 36)
        for k in range(nlib):
            method = 'nla' if k % 3 != 2 else 'chic'
            lib = random_library(rng, method, scheme=(k + 3) % len(NAME_SCHEMES))
            lib['pg'] = k % 3 == 1
            bam = os.path.join(tmp, 'lib%d.bam' % k)
            write_library(bam, lib['contigs'], method, lib['frags'], unplaced_reads(lib['nun']), lib['pg'])
            ser = serial_cli(btm, bam, os.path.join(tmp, 'ser%d.bam' % k), method, lib['contigs'])
            clens = [l for _, l in lib['contigs']]
            case = {'lib': lib, 'method': method}
            for jobs in hand_tilings(rng, lib, ntil):
                tid += 1
                jr = run_tasks(tagging, bam, method, lib['contigs'], jobs)
                emit({'ev': 'run', 'tid': tid, 'mode': 'tasks', 'method': method, 'contigs': clens, 'serial': ser,
                      'jobs': jr, 'plan': [j['tasks'] for j in jr], 'merged': [], 'raised': '',
                      'case': dict(case, jobs=[[task_rec(t) for t in j] for j in jobs])})
            if k < napi:
                tid += 1
                emit(api_event(btm, bam, tmp, lib, method, ser, api_options(rng, lib, method, k, npool), tid, str(k)))
            for p in os.listdir(tmp):
                if p.startswith(('lib%d.' % k, 'ser%d.' % k, 'par%d.' % k)):
                    os.remove(os.path.join(tmp, p))
        # directed: more fragments than check_eject_every in the serial stream
        tid += 1
        emit(ejection_event(btm, tagging, tmp, tid))
        # a library without a single read: no job writes a file, merge_bams gets the header-only file alone
        lib = {'B': 300, 'F': 60, 'contigs': [('chr1', 1200), ('chr2', 900)], 'frags': [], 'nun': 0, 'maxext': 60, 'pg': False}
        bam = os.path.join(tmp, 'libE.bam')
        write_library(bam, lib['contigs'], 'nla', [], None)
        ser = serial_cli(btm, bam, os.path.join(tmp, 'serE.bam'), 'nla', lib['contigs'])
        tid += 1
        emit(api_event(btm, bam, tmp, lib, 'nla', ser, {'seg': 300, 'fsize': 60, 'jobbp': 600, 'use_pool': False, 'threads': 2,
                                                       'order': 1, 'bed': False, 'maxtime': 0, 'variant': '', 'vcontig': ''}, tid, 'E'))
        for k in range(ncpp):
            method = 'nla' if k % 2 == 0 else 'chic'
            lib = random_library(rng, method, big=True, n_small=[1, 0, 2, 1, 3, 0][k % 6], unmapped_only=k % 3 != 2,
                                 scheme=(k + 3) % len(NAME_SCHEMES))
            if lib['nun'] == 0 and k % 2 == 0:
                lib['nun'] = 2
            bam = os.path.join(tmp, 'big%d.bam' % k)
            write_library(bam, lib['contigs'], method, lib['frags'], unplaced_reads(lib['nun']))
            ser = serial_cli(btm, bam, os.path.join(tmp, 'bser%d.bam' % k), method, lib['contigs'])
            threads = [1, 2, 4, 8, 3, 5, 6, 7][k % 8]
            stale = k % 3 == 0       # the output location already holds the (complete, indexed) output of another run
            if stale:
                for ext_ in ('', '.bai'):
                    shutil.copy(os.path.join(tmp, 'bser%d.bam' % k) + ext_, os.path.join(tmp, 'bpar%d.bam' % k) + ext_)
            index = ['ok', 'missing', 'older'][k % 3]      # verify_and_fix_bam: the CLI (re)builds the index of its input
            prepare_index(bam, index)
            jobs, merged, raised, plan = run_cpp(btm, bam, os.path.join(tmp, 'bpar%d.bam' % k), method, lib['contigs'], tmp, threads)
            tid += 1
            emit({'ev': 'run', 'tid': tid, 'mode': 'cpp', 'method': method, 'contigs': [l for _, l in lib['contigs']], 'serial': ser,
                  'jobs': jobs, 'plan': plan, 'merged': merged, 'raised': raised,
                  'case': {'lib': lib, 'method': method, 'cpp': {'threads': threads, 'stale': stale, 'index': index}}})
    shutil.rmtree(tmp, True)


def run_scenario(tagging, scn, tmp, tid):
    contigs, method, frags, jobs = scenario_library(scn)
    bam = os.path.join(tmp, 'scn.bam')
    write_library(bam, contigs, method, frags, unplaced_reads(scn.get('nun', 0)))
    ser = serial_direct(tagging, bam, method, contigs)
    jr = run_tasks(tagging, bam, method, contigs, jobs)
    os.remove(bam)
    os.remove(bam + '.bai')
    ev = {'ev': 'run', 'tid': tid, 'mode': 'scn', 'method': method, 'contigs': [l for _, l in contigs], 'serial': ser, 'jobs': jr,
          'plan': [j['tasks'] for j in jr], 'merged': [], 'raised': '', 'case': {'scn': scn}}
    if 'pred' in scn:
        ev['pred'] = [[int(x) for x in p] for p in scn['pred']]
        # what each bin job wrote, in the model's numbering (fragment index * 4 + mate); names are f<index>
        ev['wrote'] = [sorted(int(r['q'][1:]) * 4 + (r['m'] if r['m'] else 1) for r in j['recs'] if r['q'].startswith('f'))
                       for j in jr[1:]]
    return ev


def replay_case(case_path, outp):
    """re-run one recorded case (the 'case' field of an event) on the current working tree"""
    import singlecellmultiomics.universalBamTagger.bamtagmultiome as btm
    import singlecellmultiomics.universalBamTagger.tagging as tagging
    btm.sleep = lambda s: None
    with open(case_path) as f:
        case = json.load(f)
    tmp = tempfile.mkdtemp(prefix='c08r_', dir=os.getcwd())
    if case.get('directed') == 'ejection':
        ev = ejection_event(btm, tagging, tmp, 1)
    elif 'scn' in case:
        ev = run_scenario(tagging, case['scn'], tmp, 1)
    else:
        lib, method = case['lib'], case['method']
        lib['contigs'] = [tuple(c) for c in lib['contigs']]
        bam = os.path.join(tmp, 'lib.bam')
        write_library(bam, lib['contigs'], method, lib['frags'], unplaced_reads(lib['nun']), lib.get('pg', False))
        ser = serial_cli(btm, bam, os.path.join(tmp, 'ser.bam'), method, lib['contigs'])
        ev = {'ev': 'run', 'tid': 1, 'method': method, 'contigs': [l for _, l in lib['contigs']], 'serial': ser, 'merged': [],
              'raised': '', 'case': case}
        if 'jobs' in case:
            un = lambda x: None if x == -1 else x
            jobs = [[(t['c'], un(t['s']), un(t['e']), un(t['fs']), un(t['fe'])) for t in j] for j in case['jobs']]
            jr = run_tasks(tagging, bam, method, lib['contigs'], jobs)
            ev.update(mode='tasks', jobs=jr, plan=[j['tasks'] for j in jr])
        elif 'api' in case:
            ev = api_event(btm, bam, tmp, lib, method, ser, case['api'], 1, 'R')
        else:
            prepare_index(bam, case['cpp'].get('index', 'ok'))
            jobs, merged, raised, plan = run_cpp(btm, bam, os.path.join(tmp, 'par.bam'), method, lib['contigs'], tmp,
                                                 case['cpp']['threads'])
            ev.update(mode='cpp', jobs=jobs, merged=merged, raised=raised, plan=plan)
    with open(outp, 'w') as f:
        f.write(json.dumps(ev, separators=(',', ':')) + '\n')
    shutil.rmtree(tmp, True)


if __name__ == '__main__':
    main()
